"""Per-property checks: which correspondences tie the model, which falsifier runs, what counts as non-trivial."""
import json, os, itertools
import common, gens, impl, mol_checks
from gens import AM


def _mol_run(run, model, opts, nrel_quick, nrel_thorough, exhaustive=None, completeness=False, extra_stream=None):
    rng = run.sub_rng("molecules")
    quick = run.tier == "quick"
    nrel = nrel_quick if quick else nrel_thorough
    nrel *= getattr(run, "scale", 1)
    groups = {} if completeness else None
    seen = set()

    import signal

    class CaseTimeout(Exception):
        pass

    def _alarm(signum, frame):
        raise CaseTimeout()

    signal.signal(signal.SIGALRM, _alarm)
    limit = 60   # seconds per molecule (all relistings included); legitimate cases of this stream take < 2 s

    def one(am, nrel_here):
        signal.alarm(limit)
        # the extracted model is quadratic-to-cubic in the number of atoms: beyond 300 atoms only the
        # implementation-side falsifier runs (the correspondences are exercised on the smaller instances)
        opts_here = opts if am.n() <= 300 else (opts - {"K4", "K5", "K6", "K7"})
        try:
            facts = mol_checks.check_one(run, model, am, opts_here, nrel_here, rng, groups)
        except CaseTimeout:
            try:
                model.p.kill()
            except Exception:
                pass
            model.__init__()      # the line protocol may be out of step after an interrupted call
            # a loaded machine is not a violation: the molecule is given three times the limit once more, on the
            # implementation alone, before "no result" is reported
            signal.alarm(3 * limit)
            try:
                mol_checks.check_one(run, model, am, (opts_here - {"K4", "K5", "K6", "K7"}), min(nrel_here, 1), rng, groups)
                run.notes.append("a molecule needed more than %d s (passed on the second attempt with %d s): %s n=%d" % (limit, 3 * limit, am.family, am.n()))
                return {}
            except CaseTimeout:
                pass
            finally:
                signal.alarm(0)
            # no result at all for a molecule of the property's domain: the property cannot hold on it
            run.falsifier_hits.append({"property": run.prop, "what": "implementation did not return within %d s (no result to compare)" % (3 * limit),
                                       "key": "timeout", "molecule": am.to_json(), "extra": None})
            run.timeouts = getattr(run, "timeouts", 0) + 1
            # one confirmed "no result" is a violation with its replay; the rest of the stream would mostly wait for the same loop
            raise RuntimeError("a molecule exceeded the per-case time limit twice (%d s, then %d s); stopping the stream" % (limit, 3 * limit))
            return {}
        finally:
            signal.alarm(0)
        run.count("family:" + am.family.split(":")[0])
        run.count("atoms:%s" % ("1" if am.n() == 1 else "2-4" if am.n() <= 4 else "5-12" if am.n() <= 12 else "13-40" if am.n() <= 40 else ">40"))
        r = facts.get("rounds", "")
        auts = facts.get("auts")
        if auts is None and 3 <= am.n() <= 6:
            auts = len(impl.automorphisms(am))
        nontriv = am.n() >= 3 and ((auts or 0) > 1 or (r.startswith("ok ") and int(r[3:]) >= 2) or am.n() > 7)
        if nontriv and am.key() not in seen:
            seen.add(am.key()); run.nontrivial.add(am.key())
        if len(run.samples) < 6 and am.n() >= 4 and "tucan" in facts:
            run.samples.append({"molecule": am.to_json(), "tucan": facts["tucan"], "relistings": nrel_here})
        return facts

    for am in gens.standard_stream(rng, run.tier):
        one(am, nrel)
    if "C13" in opts:
        # CFI benchmark graphs (WL-hard): classes only, through the refinement functions themselves --
        # bliss may need unbounded time on them under an unlucky numbering, which is not what is checked here
        from tucan.canonicalization import partition_molecule_by_attribute, refine_partitions
        for am in gens.cfi_files(2 if quick else 8):
            g = impl.graph_of(am)
            r = list(refine_partitions(partition_molecule_by_attribute(g, "invariant_code")))[-1]
            atoms_m, bonds_m = impl.to_model(g)
            ans = model.q("classes " + common.enc_mol(atoms_m, bonds_m))
            exp = "ok " + " ".join(str(r.nodes[a]["partition"]) for a, *_ in atoms_m)
            run.comp("K4")["cases"] += 1
            run.evaluations += 1
            run.count("family:cfi")
            if ans != exp:
                run.comp("K4")["diffs"].append({"what": "classes differ on a CFI graph", "molecule": am.to_json()})
    if extra_stream:
        for am in extra_stream(rng):
            one(am, nrel)
    if exhaustive:
        nmax = exhaustive[0] if quick else exhaustive[1]
        cnt = 0
        for am in gens.exhaustive_small(nmax):
            one(am, 1 if am.n() >= 3 else 0)
            cnt += 1
        run.count("exhaustive_n<=%d" % nmax, cnt)
    if completeness:
        mol_checks.check_completeness(run, groups)
        run.count("distinct_strings", len(groups))


MOL_ASSUME = ["bliss contract: canonical_permutation returns a bijection (H1) and maps colour-isomorphic inputs to one labelled graph (H2); "
              "checked on every implementation call of this run, assumed beyond",
              "the Gallina model computes what the Python computes: checked by the listed correspondence components on this run's inputs"]


def long_instances(rng):
    """a few instances far beyond the sizes of the random stream: > 100 refinement rounds, > 1000 atoms"""
    n, e = gens.path(rng.randint(230, 270))
    yield AM([6] * n, e, {0: 13}, {}, "long:chain")
    n, e = gens.comb(rng.randint(120, 150))
    yield AM([6] * n, e, {}, {n - 1: 2}, "long:comb")


def big_instances(rng):
    """more than 1000 atoms (multi-digit indices beyond 999, counts beyond 999)"""
    n, e = gens.path(rng.randint(1002, 1030))
    zs = [6] * n
    zs[3] = 8
    yield AM(zs, e, {5: 13, n - 2: 14}, {n // 2: 2}, "big:chain")
    k = rng.randint(340, 350)
    zs, edges = [], []
    for c in range(k):      # k copies of H-O-H plus labels on a few
        zs += [1, 8, 1]
        edges += [(3 * c, 3 * c + 1), (3 * c + 1, 3 * c + 2)]
    yield AM(zs, edges, {0: 2, 3 * (k - 1): 3}, {}, "big:waters")


def c13(run, model):
    _mol_run(run, model, {"K4", "C13"}, 4, 12, exhaustive=(3, 4), extra_stream=long_instances)


def c04(run, model):
    _mol_run(run, model, {"K4", "K5", "K6", "C04"}, 4, 12, exhaustive=(3, 4), extra_stream=long_instances)
    # the same for descriptions given as molfile texts (renumbered, relisted, index numbers not in listing order)
    import text_checks
    text_checks.c01_descriptions(run, model, prop="C04")


def c12(run, model):
    _mol_run(run, model, {"K5", "C12"}, 0, 0, exhaustive=(4, 4), extra_stream=near_misses)


def c01(run, model):
    _mol_run(run, model, {"K4", "K5", "K6", "K7", "C01"}, 6, 20, exhaustive=(4, 5), completeness=True)
    # descriptions as molfile texts (V2000 / V3000, renumbered, relisted, bonds reversed), incl. three-digit atom numbers
    import text_checks
    text_checks.c01_descriptions(run, model)


def c02(run, model):
    _mol_run(run, model, {"K5", "K7", "C02"}, 0, 0, exhaustive=(4, 5), completeness=True, extra_stream=near_misses)
    # molfile descriptions of a molecule and of a sibling differing in one isotope / radical statement
    import text_checks
    text_checks.c02_descriptions(run, model)


def _near_and_big(rng):
    for am in near_misses(rng):
        yield am
    for am in big_instances(rng):
        yield am


def c03(run, model):
    _mol_run(run, model, {"K5", "K7", "C03"}, 0, 0, exhaustive=(4, 5), extra_stream=_near_and_big)


def c05(run, model):
    _mol_run(run, model, {"K7", "C05"}, 0, 0, exhaustive=(4, 5), extra_stream=_near_and_big)
    # the reader side of the quantifier ("molecules the readers ... can produce"): molfile texts, well-formed and not
    import text_checks
    text_checks.c05_reader_stream(run, model)


def label_variants(am, rng):
    """siblings of a molecule that differ in exactly one isotope / radical label: dropped, changed, moved, added"""
    out = []
    n = am.n()
    both = [i for i in am.mass if i in am.rad]
    for i in both[:2]:
        m = dict(am.mass); del m[i]; out.append(AM(am.zs, am.edges, m, am.rad, "variant:drop-mass-keep-rad"))
        r = dict(am.rad); del r[i]; out.append(AM(am.zs, am.edges, am.mass, r, "variant:drop-rad-keep-mass"))
    for i in list(am.mass)[:2]:
        m = dict(am.mass); m[i] = am.mass[i] + 1; out.append(AM(am.zs, am.edges, m, am.rad, "variant:mass+1"))
        same = [j for j in range(n) if am.zs[j] == am.zs[i] and j not in am.mass]
        if same:
            j = rng.choice(same); m = dict(am.mass); v = m.pop(i); m[j] = v
            r = dict(am.rad)
            out.append(AM(am.zs, am.edges, m, r, "variant:mass-moved"))
    for i in list(am.rad)[:1]:
        r = dict(am.rad); r[i] = 1 + (am.rad[i] % 3); out.append(AM(am.zs, am.edges, am.mass, r, "variant:rad-changed"))
    if n:
        i = rng.randrange(n)
        m = dict(am.mass); m[i] = m.get(i, 0) + 2; r = dict(am.rad); r[i] = 2
        out.append(AM(am.zs, am.edges, m, r, "variant:add-mass-and-rad"))
        m2 = dict(am.mass); m2.pop(i, None); out.append(AM(am.zs, am.edges, m2, r, "variant:add-rad-only"))
    return out


def element_variants(am, rng):
    """siblings that differ in the element of one atom, the other element being easy to confuse with it: symbol with the
    same initial letter (Ti/Te/Tl, Hg/Hf/Ho/He, Cl/Cm/Cn ...) or the neighbour in the periodic table"""
    out = []
    n = am.n()
    if not n:
        return out
    for i in rng.sample(range(n), min(n, 2)):
        sym = impl.SYM[am.zs[i]]
        same_initial = [z for z, s_ in impl.SYM.items() if s_[0] == sym[0] and z != am.zs[i]]
        cands = rng.sample(same_initial, min(2, len(same_initial))) + [z for z in (am.zs[i] - 1, am.zs[i] + 1) if 1 <= z <= 118][:1]
        for z in cands:
            zs = list(am.zs); zs[i] = z
            out.append(AM(zs, am.edges, am.mass, am.rad, "variant:element"))
    return out


def random_like(rng):
    import random as _r
    return _r.Random(rng.random())


def near_misses(rng):
    """pairs with equal formula and degree sequence that are not isomorphic, and label-moved variants"""
    base = list(itertools.islice(gens.standard_stream(random_like(rng), "quick"), 0, 400, 3))
    for am in base:
        if am.n() <= 14:
            yield am
            for v in label_variants(am, rng):
                yield v
            for v in element_variants(am, rng):
                yield v
    # molecules made of easily confused elements (shared initial letters), with a sibling each
    for syms in (["Ti", "Cl"], ["Te", "Cl"], ["Th", "Cl"], ["Hg", "C", "Cl"], ["Hf", "C", "H"], ["Db", "O"], ["Dy", "O"], ["Ta", "F"], ["Tl", "F"]):
        zof = {v: k for k, v in impl.SYM.items()}
        zs = [zof[syms[0]]] + [zof[x] for x in syms[1:] for _ in range(2)]
        yield AM(zs, [(0, j) for j in range(1, len(zs))], {}, {}, "nearmiss:confusable-elements")
    sk = gens.SKELETONS
    for a, b in (("shrikhande", "rook4x4"), ("ring12", "ring6+ring6"), ("2xring4", "ring8"), ("prism3", "K33"), ("cube", "2xK4")):
        for name in (a, b):
            n, e = sk[name]
            yield AM([6] * n, e, {}, {}, "nearmiss:" + name)
            yield AM([6] * n, e, {0: 13}, {}, "nearmiss:" + name)
    # isotope moved to a non-equivalent atom
    n, e = gens.path(6)
    for i in range(6):
        yield AM([6] * 6, e, {i: 13}, {}, "nearmiss:path6-label")
    n, e = gens.comb(4)
    for i in range(8):
        yield AM([6] * 8, e, {}, {i: 2}, "nearmiss:comb4-rad")
    # (CFI benchmark graphs are deliberately not used here: bliss may need unbounded time on them, see DESIGN 9.2)


NOT_CLAIMED = {}

NOTE_MODEL = ("Trusted: Coq kernel; the hand-written model (tied by the named correspondence components, which are differential tests); "
              "gen_tables.py and gen_logic.py (constants, tables and decisions read from the source on every run; Proofs/ParamsSpec.v, Proofs/LogicSpec.v); ExtrOcamlBasic extraction + ocaml/driver.ml; bliss/igraph as an oracle with contract H1/H2 (assumed, tested on every call).")

SPECS = {
    "C13": dict(fn=c13, level="proof", components=["K4"], assumptions=MOL_ASSUME,
                claim="Theorems classes_label_independent / classes_respect_automorphisms (unbounded: every molecule, every relabelling, listing order, bond orientation, payload) "
                      "about the Gallina model of partition_molecule_by_attribute/refine_partitions; model tied to the code by K4 (classes compared atom by atom) on every run; "
                      "falsifier checks label independence, equitability and automorphism-respect on the implementation. Lifted (EndToEnd2.v): C13_read_classes_* for graphs the reader returns.",
                note=NOTE_MODEL, design_ref="DESIGN.md 4.13",
                rule="molecule stream of gens.standard_stream (symmetric skeletons with partial labels, random, multi-component, organic, element traps, deep, trees, CFI) "
                     "+ exhaustive small scope; per molecule: relistings compared atom by atom through a tracer attribute, equitability and brute-force automorphisms (n<=7). "
                     "non-trivial = distinct molecule with >= 3 atoms and (non-trivial automorphism group or >= 2 refinement rounds or > 7 atoms)"),
    "C04": dict(fn=c04, level="proof", components=["K4", "K5", "K6"], assumptions=MOL_ASSUME,
                claim="Theorem canonical_classes_edges_unique: for every labelling oracle meeting the canonical-form contract H2, two descriptions of one molecule get the same "
                      "label->class map and edge set (unbounded). The bliss contract itself is assumed and tested (K6 = the property on the implementation). Lifted (EndToEnd2.v): C04_molfile_texts_canonical_unique(_total) for any two accepted texts of one molecule.",
                note=NOTE_MODEL, design_ref="DESIGN.md 4.4",
                rule="same stream; per molecule the views (label -> element, mass, radical, class; edge set) of the canonical graphs of several relistings are compared; the same for "
                     "molfile descriptions (renumbered, relisted, V3000 index numbers not in listing order); non-trivial as for C13"),
    "C12": dict(fn=c12, level="proof", components=["K5"], assumptions=MOL_ASSUME,
                claim="Theorem canonicalize_is_renaming: for every oracle returning a bijection (H1) the canonical graph is the input under a one-to-one renaming onto 0..n-1 with every "
                      "payload and bond datum kept in place. Mutation/aliasing of Python objects cannot be exhibited by a pure model: decided by deep before/after comparison on the implementation. Lifted (EndToEnd2.v): C12_molfile_text_canonical_graph for every accepted text.",
                note=NOTE_MODEL, design_ref="DESIGN.md 4.12",
                rule="same stream; deep before/after comparison of the argument object, tracer-based attribute and bond-data carrying, repeated calls; non-trivial as for C13"),
    "C01": dict(fn=c01, level="proof", components=["K4", "K5", "K6", "K7", "K1", "K2"], assumptions=MOL_ASSUME,
                claim="Theorem tucan_invariant: for every oracle meeting the bliss contract (H1, H2), any two descriptions of one molecule (renaming, listing orders, bond orientation, payload) "
                      "give the same string; proved through label independence of the refinement, uniqueness of the canonical view, and serialize_depends_on_view_only "
                      "(worklist traversal, sort by Z, Hill formula, tuples, attribute blocks read the graph only through sorted / order-independent views). Unbounded in size and relabelling. "
                      "Lifted to molfile descriptions (Proofs/Descriptions.v): tucan_descriptions (any two texts the reader accepts whose graphs are one molecule up to renaming) and "
                      "tucan_v3000_renumbered / tucan_v2000_renumbered / tucan_v2000_v3000_renumbered (renderings, under any spelling choices, of a molecule and of its renumbered, relisted, bond-reversed copy).",
                note=NOTE_MODEL, design_ref="DESIGN.md 4.1",
                rule="same stream + exhaustive small scope grouped by string against brute-force isomorphism classes; strings of relistings compared byte for byte; "
                     "+ molfile descriptions: V2000 / V3000 texts of one molecule renumbered, relisted, bonds reversed, random spelling knobs, 2..999 atoms (three-digit atom numbers); non-trivial as for C13"),
    "C02": dict(fn=c02, level="proof", components=["K5", "K7", "K8", "K1", "K2"], assumptions=MOL_ASSUME,
                claim="Theorem tucan_complete: for every oracle returning a bijection (H1), two molecules with the same emitted string are related by a colour-preserving isomorphism "
                      "(SameMol); corollary of the character-level round trip ref_parse(tucan m) ~ m. Unbounded. The falsifier groups every molecule of the run by string and compares with "
                      "independent isomorphism oracles in both directions. Lifted to molfile texts (EndToEnd2.v): C02_molfile_texts_complete, C02_molfile_text_string_complete, C02_molfile_texts_same_string_iff hold for every text the reader accepts.",
                note=NOTE_MODEL, design_ref="DESIGN.md 4.2",
                rule="same stream + near-miss families (cospectral / same degree sequence pairs, moved labels, CFI) + exhaustive small scope; all molecules of the run grouped by string and "
                     "compared with isomorphism (brute force n<=6, VF2 above) in both directions; non-trivial as for C13"),
    "C03": dict(fn=c03, level="proof", components=["K5", "K7", "K8"], assumptions=MOL_ASSUME,
                claim="Theorems parse_tucan_roundtrip (printing, lexing, token parsing and listener semantics compose to the identity up to renaming; same atom and bond counts) and "
                      "tucan_fixed_point (with H2) about the model and the reference reader; the generated ANTLR recogniser and lexer are translated and proved equivalent to it (see C10); the hand-written listener is tied by K8. Lifted (EndToEnd2.v): C03_molfile_text_roundtrip_total / C03_tucan_string_roundtrip_total for every accepted molfile text / TUCAN string with an atom.",
                note=NOTE_MODEL, design_ref="DESIGN.md 4.3",
                rule="same stream; parse(tucan(G)) compared with G by an independent matcher, counts, second-generation string; non-trivial as for C13"),
    "C05": dict(fn=c05, level="proof", components=["K7", "K1", "K2"], assumptions=MOL_ASSUME,
                claim="Theorem tucan_in_grammar: every emitted string is the spelling of a sentence of the inductive transcription of the published EBNF (tables regenerated from tucan.ebnf/.g4) "
                      "and lexes back to the same tokens; layout facts (Hill order, counts, a<b, ascending tuples and blocks, positive values) follow from ast_of / ser_ready. "
                      "Reader side (Proofs/EndToEnd.v, ReadersNoZero.v): molfile_text_in_grammar / molfile_text_layout hold for EVERY text the model reader accepts with at least one atom "
                      "(the readers never return a self-bond, a zero or a negative mass/radical: theorems). "
                      "The falsifier judges every emitted string with an independent regex/counting validator written from the EBNF text.",
                note=NOTE_MODEL, design_ref="DESIGN.md 4.5",
                rule="same stream; every emitted string judged by harness/validator.py (regex + counting from the EBNF text; indices read as blocks of increasing atomic number "
                     "must give the element pairs of the molecule's bonds and the elements of its labelled atoms); + reader-side stream (incl. atom lines that state a keyword twice): V2000/V3000 renderings and the "
                     "malformed streams of both formats (self-bonds, negative values, ...): whenever the reader accepts, the emitted string must validate and parse; non-trivial as for C13"),
}


import parse_checks
for _k, _v in parse_checks.SPECS.items():
    SPECS[_k] = dict(_v)
SPECS["C10"].update(
    claim="Theorems ref_parse_sound_complete / ref_parse_errors_typed / sem_accepts_iff / sem_graph_spec / lex_text_print: the executable reference reader accepts exactly the "
          "inductive transcription `Sentence` of the published EBNF (tables regenerated from tucan.g4 and tucan.ebnf, proved identical) plus the three semantic conditions, and returns the denoted graph. "
          "The ANTLR-generated recogniser tucanParser.py is TRANSLATED on every run (harness/gen_antlr.py, fail-closed, all 136 rule methods -> gen/Antlr.v) and "
          "antlr_accepts_iff_parse / antlr_recognise_iff_sentence_string prove that the translated LL(1) program accepts exactly the token lists parse_tokens accepts, i.e. exactly the "
          "spellings of `Sentence`s (side conditions on the generated tables by vm_compute: antlr_rules_shape, antlr_token_types_ok, ...). Assumed, tested by K12: the ANTLR runtime "
          "(match / LA / sync with raising listeners) and the serialized lexer ATN; the hand-written listener is tied by K8.",
    note=NOTE_MODEL + " For C10: translator harness/gen_antlr.py (Python ast -> statement language of Model/AntlrItem.v); ANTLR runtime and lexer ATN are outside the model (K12, K8).",
    design_ref="DESIGN.md 4.10", replay=parse_checks.replay)
SPECS["C11"].update(replay=parse_checks.replay)


import misc_checks, text_checks
for _k, _v in misc_checks.SPECS.items():
    SPECS[_k] = dict(_v)
    SPECS[_k]["replay"] = misc_checks.replay
SPECS["C16"].update(
    claim="Theorems C16_* (22): for every stream of shuffles, each a permutation of the labels, the helper's result is one of the draws applied as a bijective renaming with every atom field and "
          "bond datum carried, atoms listed in ascending label order on the same label set; with >= 2 bonds and not complete the returned edge set differs (and such a draw exists: "
          "exists_non_automorphism); determinism = being a function of the stream. random.shuffle is an oracle; K9 replays the generator and compares model and code.",
    note=NOTE_MODEL + " 'leaves its argument unchanged' is a fact about Python objects: decided by the before/after snapshot of the falsifier, not expressible in a pure model.",
    design_ref="DESIGN.md 4.16")
SPECS["C15"].update(level="other",
    claim="PARTIAL. Proved (unbounded): refinement_total (fuel n+1 suffices: class count grows strictly), final_labels_total (no pop from empty, no missing key, assertion holds, "
          "loop ends within 2(n+2|E|)+1 steps), tucan_total. Not provable in Gallina: interpreter recursion depth and memory; these are explored by a static no-recursion check of the "
          "source call graph and by running the real pipeline on instances up to thousands of atoms / refinement rounds chosen with the model's round count.",
    note=NOTE_MODEL + " Runtime limits (stack, heap) are outside the model.", design_ref="DESIGN.md 4.15",
    explanation="proof for logical totality of the modelled functions (3 theorems) + exploration of runtime limits (static recursion check, large instances); see coverage.components and input_distribution")
SPECS["C14"].update(level="other",
    claim="PARTIAL. Proved: order independence at every place where the code iterates an unordered container (rank_set_order_independent, final_labels_dict_order_independent, "
          "formula_counter_order_independent); the model is a pure function. Histories (ANTLR caches, module state) and thread schedules live in the runtimes and are explored by K10: "
          "hash seeds x call orders incl. rejected inputs first x 8 concurrent threads, every result compared with one reference.",
    note=NOTE_MODEL + " CPython/ANTLR/igraph runtime state is outside the model.", design_ref="DESIGN.md 4.14",
    explanation="proof for hash-order configurations (3 theorems) + exploration of call histories and thread schedules (K10)")

TEXT_ASSUME = ["float() / '{:.6f}' are outside the model: coordinates are opaque tokens in the model and are compared numerically by the harness",
               "the Gallina reader/writer model computes what the Python computes: K1/K2/K3 on this run's texts (renderings of abstract molecules under every spelling knob, corpus files, malformed stream)"]
SPECS["C09"] = dict(fn=text_checks.c09, level="proof", components=["K3", "K1"], assumptions=TEXT_ASSUME,
    rule="graphs with atom/bond line lengths targeted at 70..74, 141..146, 212..217 (label gaps, big masses, long coordinates), random in-range graphs with extreme floats, the molecule stream, and the "
         "tucan->graph->molfile->graph->tucan pipeline; an independent strict reader checks line length and structure. non-trivial = at least one wrapped line",
    claim="Theorems C09_* (14): no written line exceeds 79 characters (80 with the newline) for the regenerated wrap constants; the reader's continuation logic undoes the writer's wrapping for any "
          "line length and any number of wraps (unwrap_wrap); write_read_roundtrip: read_v3000(write_lines m) returns exactly the atoms in order (element, charge in range, radical 1..3, mass>0, "
          "coordinate tokens) and bonds with types. '{:.6f}' and float() are oracles (coordinate tokens).",
    note=NOTE_MODEL, design_ref="DESIGN.md 4.9", replay=lambda run, model, rp: (1 if text_checks.replay_text(run, model, rp.get("hit") or {}) else 0))


_treplay = lambda run, model, rp: (1 if text_checks.replay_text(run, model, rp.get("hit") or {}) else 0)
SPECS["C07"] = dict(fn=text_checks.c07, level="proof", components=["K1"], assumptions=TEXT_ASSUME,
    rule="abstract molfile molecules (incl. D/T, charges, radicals, masses, star atoms with ENDPTS) rendered plain, with every spelling knob on its own and in random combinations "
         "(indices, blank runs, property order, explicit defaults, extra atom/bond keywords, continuation at arbitrary positions, header text, counts extras, trailing blocks, CRLF, ...); "
         "read(text) compared attribute for attribute with the expected molecule. non-trivial = >= 2 atoms and at least one non-default spelling feature",
    claim="Theorems C07 (19), in particular read_v3000_render: for every abstract molecule and every admissible choice of file indices, blank runs, token order of properties, explicit "
          "defaults, foreign keywords (EXACHG...), arbitrary continuation cuts (also inside tokens, empty pieces), header and trailing lines, star atoms with ENDPTS, LF/CRLF: the reader "
          "returns exactly the stated molecule; the result depends on no choice but the index assignment. Needs the regenerated parameter v3000_keyword_exact = true.",
    note=NOTE_MODEL + " Not rendered (outside the theorem): numerals other than str(n), blanks inside ENDPTS parentheses, a last line without terminator.",
    design_ref="DESIGN.md 4.7", replay=_treplay)
SPECS["C08"] = dict(fn=text_checks.c08, level="proof", components=["K1", "K2"], assumptions=TEXT_ASSUME,
    rule="abstract molecules rendered as V2000 (charge codes vs M  CHG/RAD lines, stale codes, zero entries, grouping into lines of 1..8 entries, line order, unrelated property lines incl. "
         "A/G/V pairs, atom lists, stext, blank-for-zero fields, D/T) and as V3000; graphs and TUCAN strings compared with each other and with the expected molecule. "
         "non-trivial = >= 2 atoms and at least one property line or charge code",
    claim="Theorems C08 (27), in particular read_v2000_render / read_v2000_render_grouped: for every abstract molecule (<= 999 atoms) and every admissible rendering (codes vs property lines, "
          "any grouping and order of entries, interleaved unrelated lines and alias pairs, atom lists, stext, stale codes) the V2000 reader returns the stated molecule; entry i of a property line is "
          "decoded from columns [10+8i,13+8i) and [14+8i,17+8i) for every i (lia over the regenerated column constants); M  CHG/RAD lines supersede codes; D/T keep mass 2/3; "
          "v2000_v3000_agree composes with the V3000 theorem.",
    note=NOTE_MODEL, design_ref="DESIGN.md 4.8", replay=_treplay)
SPECS["C06"] = dict(fn=text_checks.c06, level="proof", components=["K1", "K2"], assumptions=TEXT_ASSUME,
    rule="abstract molfile molecules x ~30 pair classes: two renderings differing in ONE class of non-identity data at a time (coordinates, bond types incl. aromatic/resonance "
         "redistributions, charges, header/comment lines, file index values, each extra keyword/block, line endings, layout, V2000 vs V3000); TUCAN strings must be identical and equal to the "
         "string of the bare identity data. non-trivial = >= 2 atoms and a pair that differs textually",
    claim="Theorems C06 (24): tucan_ignores_payload (payload and bond-data types are arbitrary: charges, coordinates, bond orders are invisible to SameMol by typing, and tucan_invariant "
          "does the rest), tucan_v3000_nonidentity / tucan_v2000_nonidentity / tucan_v2000_v3000 (two molfile texts of molecules with the same identity data -- any charges, coordinates, bond types, "
          "header lines, index values, blank runs, continuation cuts, property order, foreign keywords, trailing blocks, CRLF/LF, either format -- are read and get the same string), "
          "tucan_resonance_invariant; composition of C01 with the reader theorems of C07/C08; non-vacuity by evaluation with the brute-force oracle.",
    note=NOTE_MODEL, design_ref="DESIGN.md 4.6", replay=_treplay)
SPECS["C11"].update(
    claim="Theorems C11 (10): parsed graphs are well formed; norm_respell (every respelling in the inductive closure Respell -- tuple order/orientation/repetition, block order/split/merge, "
          "property order, renumbering within element blocks -- has the same normal form, via SemEq and tucan_invariant), norm_idempotent, norm_canonical, norm_same_molecule; for every oracle "
          "meeting H1/H2; non-vacuity examples evaluated with the brute-force oracle RefCanon. The ANTLR parser is tied to the reference reader by K8.",
    note=NOTE_MODEL, design_ref="DESIGN.md 4.11")


def replay(run, model, rp):
    """Re-run the falsifier on the recorded failing input."""
    spec = SPECS.get(rp.get("property"), {})
    if "replay" in spec:
        return spec["replay"](run, model, rp)
    hit = rp.get("hit")
    if not hit:
        print("replay file names no failing input: ", json.dumps(rp.get("broken")))
        return 1
    if (hit.get("case") or {}).get("kind") in ("C05-text", "C01-text", "C02-text", "C04-text"):
        import text_checks
        if text_checks.replay_text(run, model, hit):
            print("VIOLATION property=%s replay=%s" % (rp["property"], "(replayed)"))
            return 1
        print("not reproduced")
        return 0
    am = AM.from_json(hit["molecule"])
    prop = rp["property"]
    opts = {prop} | {"K5"}
    rng = run.sub_rng("replay")
    ex = hit.get("extra") or {}
    if "relisted" in ex:
        # compare exactly the two recorded descriptions
        g1 = mol_checks.build(am); g2 = mol_checks.build(AM.from_json(ex["relisted"]))
        s1, s2 = impl.tucan_of(g1), impl.tucan_of(g2)
        v1, v2 = impl.view(impl.canonicalize_molecule(g1)), impl.view(impl.canonicalize_molecule(g2))
        bad = (s1 != s2) if prop == "C01" else (v1 != v2)
        print("description A:", s1); print("description B:", s2)
        if bad:
            print("VIOLATION property=%s replay=%s" % (prop, "(replayed)"))
            return 1
        return 0
    mol_checks.check_one(run, model, am, opts, 8, rng, {})
    hits = [h for h in run.falsifier_hits if h["property"] == prop]
    for h in hits[:3]:
        print(json.dumps(h, default=str)[:600])
    if hits:
        print("VIOLATION property=%s replay=%s" % (prop, "(replayed)"))
        return 1
    print("not reproduced")
    return 0
