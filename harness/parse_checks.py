"""String-level checks: C10 (parser = grammar + denoted graph), C11 (any valid spelling normalises
to the one canonical string) and the correspondence K8 (implementation parser vs the model's
reference reader coq/Model/Parse.v).

Three readers look at every string:
  * the implementation      impl.parse_outcome(s)              (ANTLR recogniser + listener, /repo)
  * the Coq reference       model.q("parse " + hx(s))          (difference -> K8 diff)
  * the Python reference    ref_read(s), written below from the text of tucan.ebnf: regex tokenizer
                            with maximal munch + recursive descent + the three semantic checks
                            (difference -> C10 falsifier hit; it looks at the implementation only)
The element order lists and the atomic numbers are read from tucan.ebnf itself (the element rules
are listed there by atomic number); nothing is imported from the library for the reference side.

    PYTHONPATH=/repo /venv/bin/python parse_checks.py [quick|thorough] [seed]      self-test
"""
import zlib
import json, os, re, sys, time

sys.path.insert(0, os.path.dirname(os.path.abspath(__file__)))
import common
from common import hx, dec_mol
import impl
import gens

# ============================================================================ the grammar text
EBNF_PATH = os.path.join(common.REPO, "tucan", "parser", "tucan.ebnf")

# the non-element rules this file was written from; a change of the .ebnf shows up as drift
EXPECTED_RULES = {
    "tucan": 'sum_formula "/" tuples ("/" node_attributes)?',
    "sum_formula": "with_carbon | without_carbon",
    "count": "greater_than_one",
    "tuples": "tuple*",
    "tuple": '"(" node_index "-" node_index ")"',
    "node_index": "greater_than_zero",
    "node_attributes": "node_attribute*",
    "node_attribute": '"(" node_index ":" node_property ("," node_property)* ")"',
    "node_property": 'node_property_key "=" node_property_value',
    "node_property_key": '"mass" | "rad"',
    "node_property_value": "greater_than_zero",
    "greater_than_zero": '"1" | greater_than_one',
    "greater_than_one": '"2" | "3" | "4" | "5" | "6" | "7" | "8" | "9" | GREATER_THAN_NINE',
    "GREATER_THAN_NINE": "[1-9] [0-9]+",
}


def _read_ebnf():
    rules, names = {}, []
    for line in open(EBNF_PATH):
        m = re.match(r"\s*([A-Za-z_]+)\s*::=\s*(.*?)\s*$", line)
        if m:
            rules[m.group(1)] = m.group(2)
            names.append(m.group(1))
    sym_of_rule, z_of_sym = {}, {}
    for nm in names:
        m = re.fullmatch(r'"([A-Z][a-z]?)"\s+count\?', rules[nm])
        if m:
            sym_of_rule[nm] = m.group(1)
            z_of_sym[m.group(1)] = len(z_of_sym) + 1          # element rules are listed by atomic number
    def order(rule):
        out = []
        for x in rules[rule].split():
            out.append((sym_of_rule[x.rstrip("?")], x.endswith("?")))
        return out
    drift = []
    for k, v in EXPECTED_RULES.items():
        if re.sub(r"\s+", " ", rules.get(k, "<missing>")) != v:
            drift.append("tucan.ebnf rule %s is %r, the reference reader was written for %r" % (k, rules.get(k), v))
    for k in rules:
        if k not in EXPECTED_RULES and k not in sym_of_rule and k not in ("with_carbon", "without_carbon"):
            drift.append("tucan.ebnf has a rule unknown to the reference reader: " + k)
    return order("with_carbon"), order("without_carbon"), z_of_sym, drift


WC, NC, ZEBNF, EBNF_DRIFT = _read_ebnf()
WC_SYMS = [s for s, _ in WC]
NC_SYMS = [s for s, _ in NC]
SYMS = sorted(ZEBNF, key=lambda s: ZEBNF[s])
if len(SYMS) != 118 or not (WC and WC[0] == ("C", False)) or not all(o for _, o in WC[1:]) or not all(o for _, o in NC):
    EBNF_DRIFT.append("unexpected shape of with_carbon / without_carbon / element rules in tucan.ebnf")
if ZEBNF != impl.ZOF:
    EBNF_DRIFT.append("atomic numbers by position in tucan.ebnf differ from ELEMENT_ATTRS")
BY_LETTER = {}
for _s in sorted(SYMS):
    BY_LETTER.setdefault(_s[0], []).append(_s)
TRAP_LETTERS = [k for k, v in BY_LETTER.items() if len(v) >= 3]

PUNCT = ["/", "(", ")", "-", ":", ",", "="]
KEYS = ["mass", "rad"]
NUMERALS = ["0", "1", "01", "10", "2", "3", "9", "11", "12", "19", "20", "99", "100", "101", "250", "007", "1000", "99999"]
ALPHABET = SYMS + NUMERALS + PUNCT + KEYS

# ============================================================================ reference reader
_TOKEN_RE = re.compile("(?P<sym>%s)|(?P<num>[1-9][0-9]*)|(?P<key>mass|rad)|(?P<p>[/()\\-:,=])" % "|".join(
    sorted([s for s in SYMS if len(s) == 2]) + sorted([s for s in SYMS if len(s) == 1])))   # two-letter symbols first = maximal munch
REF_MAX_ATOMS = 200000


def to_int(d):
    """decimal numeral -> int without the interpreter's digit limit"""
    if len(d) <= 4000:
        return int(d)
    v = 0
    for i in range(0, len(d), 3000):
        chunk = d[i:i + 3000]
        v = v * 10 ** len(chunk) + int(chunk)
    return v


def ref_lex(s):
    toks, pos = [], 0
    while pos < len(s):
        m = _TOKEN_RE.match(s, pos)
        if not m:
            return None
        toks.append((m.lastgroup, m.group(0)))
        pos = m.end()
    return toks


def match_order(order, syms):
    """`a? b? c ...`: walk the rule, consuming matching symbols"""
    i = 0
    for sym, opt in order:
        if i < len(syms) and syms[i] == sym:
            i += 1
        elif not opt:
            return False
    return i == len(syms)


def ref_read(s):
    """('ok', atoms, bonds, ast) | ('reject', 'lex'|'syntax'|'selfloop'|'dupattr'|'badindex') | ('toolarge',)
    atoms: [(label, Z, mass|None, rad|None, 0)] in label order; bonds: sorted set of (u, v), u < v;
    ast: {'items': [(sym, count|None)], 'tuples': [(a, b)], 'blocks': None | [(i, [(key, value)])]} as written."""
    toks = ref_lex(s)
    if toks is None:
        return ("reject", "lex")
    toks.append(("eof", ""))
    i = 0
    # sum_formula
    items = []
    while toks[i][0] == "sym":
        sym = toks[i][1]; i += 1
        cnt = None
        if toks[i][0] == "num" and toks[i][1] != "1":          # count ::= greater_than_one
            cnt = to_int(toks[i][1]); i += 1
        items.append((sym, cnt))
    syms = [a for a, _ in items]
    if not (match_order(WC, syms) or match_order(NC, syms)):
        return ("reject", "syntax")
    if toks[i][1] != "/":
        return ("reject", "syntax")
    i += 1
    # tuples
    tuples = []
    while toks[i][1] == "(":
        if not (toks[i + 1][0] == "num" and toks[i + 2][1] == "-" and toks[i + 3][0] == "num" and toks[i + 4][1] == ")"):
            return ("reject", "syntax")
        tuples.append((to_int(toks[i + 1][1]), to_int(toks[i + 3][1])))
        i += 5
    blocks = None
    if toks[i][1] == "/" and toks[i][0] == "p":
        i += 1
        blocks = []
        while toks[i][1] == "(":
            if not (toks[i + 1][0] == "num" and toks[i + 2][1] == ":"):
                return ("reject", "syntax")
            idx = to_int(toks[i + 1][1]); i += 3
            props = []
            while True:
                if not (toks[i][0] == "key" and toks[i + 1][1] == "=" and toks[i + 2][0] == "num"):
                    return ("reject", "syntax")
                props.append((toks[i][1], to_int(toks[i + 2][1]))); i += 3
                if toks[i][1] == ",":
                    i += 1
                    continue
                break
            if toks[i][1] != ")":
                return ("reject", "syntax")
            i += 1
            blocks.append((idx, props))
    if toks[i][0] != "eof":
        return ("reject", "syntax")
    # meaning
    if any(a == b for a, b in tuples):
        return ("reject", "selfloop")
    seen = set()
    for idx, props in blocks or []:
        for k, _ in props:
            if (idx, k) in seen:
                return ("reject", "dupattr")
            seen.add((idx, k))
    n = sum((c or 1) for _, c in items)
    if any(a > n or b > n for a, b in tuples) or any(idx > n for idx, _ in blocks or []):
        return ("reject", "badindex")
    if n > REF_MAX_ATOMS:
        return ("toolarge",)
    zs = []
    for sym, c in items:
        zs += [ZEBNF[sym]] * (c or 1)
    zs.sort()
    mass, rad = {}, {}
    for idx, props in blocks or []:
        for k, v in props:
            (mass if k == "mass" else rad)[idx - 1] = v
    atoms = [(j, z, mass.get(j), rad.get(j), 0) for j, z in enumerate(zs)]
    bonds = sorted(set((min(a, b) - 1, max(a, b) - 1) for a, b in tuples))
    return ("ok", atoms, bonds, {"items": items, "tuples": tuples, "blocks": blocks})


def ref_parse(s):
    r = ref_read(s)
    return r[:3] if r[0] == "ok" else r


# ============================================================================ sentences
def emit(ast):
    out = []
    for sym, c in ast["items"]:
        out.append(sym if c is None else "%s%d" % (sym, c))
    out.append("/")
    for a, b in ast["tuples"]:
        out.append("(%d-%d)" % (a, b))
    if ast["blocks"] is not None:
        out.append("/")
        for idx, props in ast["blocks"]:
            out.append("(%d:%s)" % (idx, ",".join("%s=%d" % p for p in props)))
    return "".join(out)


def tokens_of(ast):
    out = []
    for sym, c in ast["items"]:
        out.append(sym)
        if c is not None:
            out.append(str(c))
    out.append("/")
    for a, b in ast["tuples"]:
        out += ["(", str(a), "-", str(b), ")"]
    if ast["blocks"] is not None:
        out.append("/")
        for idx, props in ast["blocks"]:
            out += ["(", str(idx), ":"]
            for j, (k, v) in enumerate(props):
                if j:
                    out.append(",")
                out += [k, "=", str(v)]
            out.append(")")
    return out


def n_atoms(ast):
    return sum((c or 1) for _, c in ast["items"])


COUNTS = [None, None, None, None, None, None, 2, 2, 2, 3, 9, 9, 10, 10, 11, 11, 100]
MASSES = [1, 2, 3, 9, 10, 13, 14, 100, 250, 999999]
RADS = [1, 2, 3, 10]


def gen_formula(rng, max_atoms=300):
    if rng.random() < 0.03:
        return []
    with_c = rng.random() < 0.55
    pool = [s for s in (WC_SYMS if with_c else NC_SYMS) if s not in ("C", "H")]
    mode = rng.choices(["few", "group", "many", "all"], [45, 30, 20, 5])[0]
    if mode == "few":
        chosen = set(rng.sample(pool, rng.choice([0, 1, 1, 2, 3, 4])))
    elif mode == "group":
        letter = rng.choice(TRAP_LETTERS)
        chosen = set(s for s in BY_LETTER[letter] if s in pool and rng.random() < .7)
        chosen |= set(rng.sample(pool, rng.choice([0, 0, 1, 2])))
    elif mode == "many":
        chosen = set(rng.sample(pool, rng.randint(8, 40)))
    else:
        chosen = set(pool)
    if with_c:
        chosen.add("C")
        if rng.random() < .6:
            chosen.add("H")
    elif rng.random() < .4:
        chosen.add("H")
    order = WC_SYMS if with_c else NC_SYMS
    syms = [s for s in order if s in chosen]
    if len(syms) > max_atoms:
        syms = syms[:max_atoms]
    items, total = [], 0
    for j, s in enumerate(syms):
        c = rng.choice(COUNTS) if mode != "all" or rng.random() < .1 else None
        rest = len(syms) - j - 1
        if total + (c or 1) + rest > max_atoms:
            c = None
        items.append((s, c))
        total += c or 1
    return items


def gen_tuples(rng, n):
    if n < 2:
        return []
    mode = rng.choice(["none", "one", "chain", "chain", "random", "random", "dense"])
    ts = []
    if mode == "one":
        ts = [tuple(rng.sample(range(1, n + 1), 2))]
    elif mode == "chain":
        k = rng.randint(2, min(n, 40))
        start = rng.randint(1, n - k + 1)
        ts = [(i, i + 1) for i in range(start, start + k - 1)]
        for _ in range(rng.choice([0, 0, 1, 3])):
            ts.append(tuple(rng.sample(range(1, n + 1), 2)))
    elif mode == "random":
        ts = [tuple(rng.sample(range(1, n + 1), 2)) for _ in range(rng.randint(1, min(2 * n, 30)))]
    elif mode == "dense":
        m = min(n, 7)
        base = rng.sample(range(1, n + 1), m)
        ts = [(a, b) for a in base for b in base if a < b and rng.random() < .8]
    ts = [(b, a) if rng.random() < .5 else (a, b) for a, b in ts]
    for t in list(ts):
        if rng.random() < .15:                               # repeated tuple, either orientation
            ts.insert(rng.randint(0, len(ts)), t if rng.random() < .5 else (t[1], t[0]))
    rng.shuffle(ts)
    return ts


def gen_blocks(rng, n):
    r = rng.random()
    if r < .45:
        return None
    if r < .55 or n == 0:
        return []
    atoms = rng.sample(range(1, n + 1), min(n, rng.choice([1, 1, 2, 3, 4, 8])))
    blocks = []
    for a in atoms:
        kind = rng.choice(["mass", "rad", "mr", "rm", "split", "split"])
        m, r_ = ("mass", rng.choice(MASSES)), ("rad", rng.choice(RADS))
        if kind == "mass":
            blocks.append((a, [m]))
        elif kind == "rad":
            blocks.append((a, [r_]))
        elif kind == "mr":
            blocks.append((a, [m, r_]))
        elif kind == "rm":
            blocks.append((a, [r_, m]))
        else:
            two = [(a, [m]), (a, [r_])]
            rng.shuffle(two)
            blocks.insert(rng.randint(0, len(blocks)), two[0])
            blocks.insert(rng.randint(0, len(blocks)), two[1])
    if rng.random() < .5:
        rng.shuffle(blocks)
    return blocks


def gen_sentence(rng, max_atoms=300):
    """a random valid sentence, as the structure it was written from"""
    items = gen_formula(rng, max_atoms)
    n = sum((c or 1) for _, c in items)
    return {"items": items, "tuples": gen_tuples(rng, n), "blocks": gen_blocks(rng, n)}


FIXED = [  # (string, expected outcome)
    # indices and counts beyond the interpreter's small-integer cache (257+) and beyond 999
    ("C300/(1-2)(299-299)", "reject"), ("C300/(1-2)(257-257)", "reject"), ("C300/(1-2)(300-300)", "reject"), ("C300/(299-300)(256-256)", "reject"),
    ("C300/(1-2)(299-300)", "accept"), ("C300/(257-258)(258-257)", "accept"), ("C300/(1-301)", "reject"), ("C300/(301-1)(1-2)", "reject"),
    ("C300/(1-2)/(257:mass=13)(257:mass=13)", "reject"), ("C300/(1-2)/(300:mass=1000)", "accept"), ("C300/(1-2)/(301:mass=13)", "reject"),
    ("C1001/(1000-1001)(1-1000)", "accept"), ("C1001/(1001-1001)", "reject"), ("C1000H2/(1-1001)(1000-1002)", "accept"), ("C999/(999-1000)", "reject"),
    ("C1200/(1-2)/(1100:rad=2,mass=1000)", "accept"),
    ("/", "accept"), ("//", "accept"), ("C/", "accept"), ("C//", "accept"), ("CH4//", "accept"), ("CH4/", "accept"),
    ("CH4/(1-5)(2-5)(3-5)(4-5)", "accept"), ("H/", "accept"), ("H2/(1-2)", "accept"), ("HO/", "accept"), ("H2O/(1-3)(2-3)", "accept"),
    ("CCl/", "accept"), ("ClH/", "accept"), ("CHCl/", "accept"), ("CCl4/(1-2)", "accept"), ("BrH/", "accept"), ("CBrClFI/", "accept"),
    ("CHAcAgAl/", "accept"), ("AcAgAlHHe/", "accept"), ("CCaCdCeCfClCmCnCoCrCsCu/", "accept"), ("HHeHfHgHoHs/", "accept"),
    ("NNaNbNdNeNhNiNoNp/", "accept"), ("C2/(1-2)(2-1)(1-2)", "accept"), ("C2/(1-2)/", "accept"),
    ("C//(1:mass=13)", "accept"), ("C//(1:rad=3,mass=13)", "accept"), ("C//(1:mass=13)(1:rad=3)", "accept"), ("C//(1:rad=3)(1:mass=13)", "accept"),
    ("C10/(1-10)(10-9)", "accept"), ("C11H100/(1-111)", "accept"), ("C100/(100-99)", "accept"),
    ("", "reject"), ("C", "reject"), ("CH4", "reject"), ("H2C/", "reject"), ("OC/", "reject"), ("ClC/", "reject"), ("HC/", "reject"),
    ("HCl/", "reject"), ("CClH/", "reject"), ("HBr/", "reject"), ("CC/", "reject"), ("C2C/", "reject"), ("HH/", "reject"), ("CHH/", "reject"),
    ("C1/", "reject"), ("C01/", "reject"), ("C0/", "reject"), ("C02/", "reject"), ("C1H4/", "reject"), ("CH1/", "reject"),
    ("C/(1-1)", "reject"), ("C2/(2-2)", "reject"), ("C2/(1-3)", "reject"), ("C2/(3-1)", "reject"), ("C2/(0-1)", "reject"), ("C2/(1-0)", "reject"),
    ("C2/(01-2)", "reject"), ("/(1-2)", "reject"), ("//(1:mass=1)", "reject"),
    ("C//(1:mass=0)", "reject"), ("C//(1:rad=0)", "reject"), ("C//(1:mass=01)", "reject"), ("C//(0:mass=1)", "reject"), ("C//(2:mass=1)", "reject"),
    ("C//(1:mass=1,mass=1)", "reject"), ("C//(1:mass=1,rad=2,mass=3)", "reject"), ("C//(1:mass=1)(1:mass=2)", "reject"),
    ("C2//(1:rad=1)(2:rad=1)(1:rad=1)", "reject"), ("C//(1:)", "reject"), ("C//(1:mass=1,)", "reject"), ("C//()", "reject"), ("C/()", "reject"),
    ("C2(1-2)", "reject"), ("C2/(1-2)//", "reject"), ("C2///", "reject"), ("C2/(1-2)/(1:mass=2)/", "reject"),
    ("C2//(1-2)", "reject"), ("C2/(1:mass=2)", "reject"), ("C2/(1-2)x", "reject"), ("C2/(1-2) ", "reject"), ("C2/(1-2)\n", "reject"),
    (" C2/(1-2)", "reject"), ("\nC2/(1-2)", "reject"), ("\ufeffC2/(1-2)", "reject"), ("C2 /(1-2)", "reject"), ("C2/( 1-2)", "reject"), ("C 2/", "reject"),
    ("c2/(1-2)", "reject"), ("CL/", "reject"), ("cl/", "reject"), ("Cx/", "reject"), ("J/", "reject"), ("Q2/", "reject"), ("D2O/", "reject"), ("T/", "reject"),
    ("C//(1:Mass=2)", "reject"), ("C//(1:MASS=2)", "reject"), ("C//(1:mas=2)", "reject"), ("C//(1:radius=2)", "reject"), ("C//(1:chg=1)", "reject"),
    ("Cmass/", "reject"), ("Crad/", "reject"), ("Nrad/", "reject"),
    ("C٣/", "reject"), ("C２/", "reject"), ("C2/(1-٣)", "reject"), ("C2/(１-2)", "reject"), ("C//(1:mass=２)", "reject"),
    ("C²/", "reject"), ("C2/(1–2)", "reject"), ("C2/(1-2)\x00", "reject"), ("C_2/", "reject"), ("C2/(1_2)", "reject"), ("C2/(1-2)_", "reject"),
    ("C2/(+1-2)", "reject"), ("C2/(1--2)", "reject"), ("C2/(1-2-1)", "reject"), ("C2/(1,2)", "reject"), ("C2/[1-2]", "reject"), ("C2/((1-2))", "reject"),
    ("C2/(1-2", "reject"), ("C2/1-2)", "reject"), ("C2/(1-)", "reject"), ("C2/(-2)", "reject"), ("C2/(1.0-2)", "reject"), ("C2/(1e0-2)", "reject"),
]

# ============================================================================ mutants
RAW_CHARS = list(" \n\t\r") + list("abclmrsdeoxz") + list("CHNOXZJQ") + list("0123456789") + \
    ["٣", "２", "\U0001d7db", "²", "é", "\x00", "\x7f", "\ufeff", "–"] + list("_.;[]+*\\%'\"#") + PUNCT


def cat(tok):
    if tok in PUNCT:
        return "punct"
    if tok in KEYS:
        return "key"
    if tok[0].isdigit():
        return "num"
    return "sym"


def sample_alpha(rng, near=None):
    out = PUNCT + KEYS + rng.sample(NUMERALS, 4)
    if near and near[0] in BY_LETTER and rng.random() < .7:
        out = out + rng.sample(BY_LETTER[near[0]], min(2, len(BY_LETTER[near[0]])))
    return out + rng.sample(SYMS, 3)


def token_mutants(tokens, rng, budget):
    """all single-token deletions and adjacent transpositions, a sample of insertions / replacements"""
    T = len(tokens)
    j = "".join
    out = []
    for i in range(T):
        out.append(("tok-del:" + cat(tokens[i]), j(tokens[:i] + tokens[i + 1:])))
    for i in range(T - 1):
        if tokens[i] != tokens[i + 1]:
            out.append(("tok-swap", j(tokens[:i] + [tokens[i + 1], tokens[i]] + tokens[i + 2:])))
    for _ in range(3):
        if T >= 3:
            a, b = sorted(rng.sample(range(T), 2))
            if b > a + 1 and tokens[a] != tokens[b]:
                t2 = list(tokens); t2[a], t2[b] = t2[b], t2[a]
                out.append(("tok-swap-far", j(t2)))
    cands = []
    for i in range(T + 1):
        near = tokens[i] if i < T else tokens[i - 1] if T else None
        for tok in sample_alpha(rng, near):
            cands.append(("tok-ins:" + cat(tok), j(tokens[:i] + [tok] + tokens[i:])))
    for i in range(T):
        for tok in sample_alpha(rng, tokens[i]):
            if tok != tokens[i]:
                cands.append(("tok-rep:" + cat(tok), j(tokens[:i] + [tok] + tokens[i + 1:])))
    rng.shuffle(cands)
    return out + cands[:max(0, budget - len(out))]


def token_mutants_exhaustive(tokens, alphabet):
    T = len(tokens)
    j = "".join
    for i in range(T):
        yield "tok-del:" + cat(tokens[i]), j(tokens[:i] + tokens[i + 1:])
    for a in range(T):
        for b in range(a + 1, T):
            if tokens[a] != tokens[b]:
                t2 = list(tokens); t2[a], t2[b] = t2[b], t2[a]
                yield ("tok-swap" if b == a + 1 else "tok-swap-far"), j(t2)
    for i in range(T + 1):
        for tok in alphabet:
            yield "tok-ins:" + cat(tok), j(tokens[:i] + [tok] + tokens[i:])
    for i in range(T):
        for tok in alphabet:
            if tok != tokens[i]:
                yield "tok-rep:" + cat(tok), j(tokens[:i] + [tok] + tokens[i + 1:])


def char_mutants(s, rng, budget):
    out = []
    L = len(s)
    pos = list(range(L))
    if L > budget // 3:
        pos = sorted(rng.sample(pos, max(1, budget // 3)))
    for i in pos:
        out.append(("chr-del", s[:i] + s[i + 1:]))
    for _ in range(max(1, budget // 3)):
        i = rng.randint(0, L); c = rng.choice(RAW_CHARS)
        out.append(("chr-ins", s[:i] + c + s[i:]))
    for _ in range(max(1, budget // 3)):
        if L:
            i = rng.randrange(L); c = rng.choice(RAW_CHARS)
            if c != s[i]:
                out.append(("chr-rep", s[:i] + c + s[i + 1:]))
    return out


def near_misses(ast, rng):
    """semantic / grammatical near-misses of a valid sentence: (kind, string, 'reject'|'accept'|None)"""
    n = n_atoms(ast)
    items = ast["items"]
    base = emit(ast)
    F = "".join(sym if c is None else "%s%d" % (sym, c) for sym, c in items)
    T = "".join("(%d-%d)" % t for t in ast["tuples"])
    B = None if ast["blocks"] is None else "".join("(%d:%s)" % (i, ",".join("%s=%d" % p for p in ps)) for i, ps in ast["blocks"])
    Bx = B or ""

    def mk(F=F, T=T, B=B):
        return F + "/" + T + ("" if B is None else "/" + B)

    def fm(its):
        return "".join(sym if c is None else "%s%s" % (sym, c) for sym, c in its)

    def tins(extra):
        k = rng.randint(0, len(ast["tuples"]))
        return "".join("(%d-%d)" % t for t in ast["tuples"][:k]) + extra + "".join("(%d-%d)" % t for t in ast["tuples"][k:])

    used = set(i for i, _ in ast["blocks"] or [])
    free = [i for i in range(1, n + 1) if i not in used]
    R = "reject"
    if n >= 1:
        k = rng.randint(1, n)
        yield "near:selfloop", mk(T=tins("(%d-%d)" % (k, k))), R
        yield "near:index-n+1-tuple", mk(T=tins("(%d-%d)" % (k, n + 1))), R
        yield "near:index-n+1-tuple", mk(T=tins("(%d-%d)" % (n + 1, k))), R
        yield "near:index-n+1-attr", mk(B=Bx + "(%d:mass=2)" % (n + 1)), R
        yield "near:index-0", mk(T=tins("(0-%d)" % k)), R
        yield "near:index-0", mk(T=tins("(%d-0)" % k)), R
        yield "near:index-0", mk(B=Bx + "(0:mass=2)"), R
        yield "near:index-leading-zero", mk(T=tins("(0%d-%d)" % (k, n + 1))), R
        yield "near:dup-attr-one-block", mk(B=Bx + "(%d:mass=2,mass=3)" % k), R
        yield "near:dup-attr-one-block", mk(B=Bx + "(%d:rad=1,rad=1)" % k), R
        yield "near:dup-attr-one-block", mk(B=Bx + "(%d:mass=2,rad=1,mass=2)" % k), R
        yield "near:dup-attr-two-blocks", mk(B="(%d:mass=2)" % k + Bx + "(%d:mass=3)" % k), R
        yield "near:dup-attr-two-blocks", mk(B="(%d:rad=2,mass=5)" % k + Bx + "(%d:rad=2)" % k), R
        for bad in ("mass=0", "rad=0", "mass=01", "mass=-1", "mass=1.5", "mass=", "mass", "=2", "mass=2,", ",mass=2", "mass=2,,rad=1",
                    "mass=2;rad=1", "mass=2 rad=1", "mass:2", "mass==2", "Mass=2", "MASS=2", "mas=2", "masss=2", "rad =2", "iso=2", "mass=two"):
            yield "near:bad-property", mk(B=Bx + "(%d:%s)" % (k, bad)), R
        yield "near:bad-block", mk(B=Bx + "(%d,mass=2)" % k), R
        yield "near:bad-block", mk(B=Bx + "(%d:mass=2" % k), R
        yield "near:bad-block", mk(B=Bx + "%d:mass=2)" % k), R
        yield "near:bad-block", mk(B=Bx + "(:mass=2)"), R
        yield "near:bad-block", mk(B=Bx + "(mass=2)"), R
        yield "near:bad-block", mk(B=Bx + "(%d:mass=2)x" % k), R
        if free:
            f = rng.choice(free)
            yield "near:ok-split-blocks", mk(B="(%d:mass=2)" % f + Bx + "(%d:rad=1)" % f), "accept"
            yield "near:ok-both", mk(B=Bx + "(%d:rad=1,mass=2)" % f), "accept"
        yield "near:wrong-section", mk(B=Bx + "(%d-%d)" % (k, k % n + 1)), R
        yield "near:wrong-section", mk(T=T + "(%d:mass=2)" % k), R
        yield "near:unicode-digit", mk(T=tins("(%d-٣)" % k)), R
        yield "near:unicode-digit", mk(B=Bx + "(%d:mass=２)" % k), R
    else:
        yield "near:index-n+1-tuple", mk(T="(1-2)"), R
        yield "near:index-n+1-attr", mk(B="(1:mass=2)"), R
    for bad in ("()", "(1-)", "(-1)", "(1)", "(1-1-1)", "(1,2)", "(1 -2)", "( 1-2)", "(1-2 )", "[1-2]", "(1-2", "1-2)", "((1-2))", "(1--2)", "(+1-2)", "(a-b)", "(1–2)"):
        yield "near:bad-tuple", mk(T=tins(bad)), R
    if items:
        j = rng.randrange(len(items))
        for c in ("1", "01", "0", "00", "02", "-2", "2.0", "٢", "２", "²"):
            it2 = list(items); it2[j] = (items[j][0], c)
            yield ("near:count-%s" % c if c.isascii() else "near:unicode-digit"), mk(F=fm(it2)), R
        it2 = list(items); it2.insert(j, items[j])
        yield "near:repeated-element", mk(F=fm(it2)), R
        it2 = list(items); it2.append(items[j])
        yield "near:repeated-element", mk(F=fm(it2)), R
        if len(items) >= 2:
            j2 = rng.randrange(len(items) - 1)
            it2 = list(items); it2[j2], it2[j2 + 1] = it2[j2 + 1], it2[j2]
            yield "near:hill-order-swap", mk(F=fm(it2)), R
            it2 = list(items); it2.reverse()
            yield "near:hill-order-reversed", mk(F=fm(it2)), R
        if items[0][0] != "C":
            jj = rng.randint(1, len(items))
            it2 = list(items); it2.insert(jj, ("C", rng.choice([None, 2])))
            yield "near:C-in-without-carbon-shape", mk(F=fm(it2)), R
        else:
            hs = [x for x in items if x[0] == "H"]
            rest = [x for x in items if x[0] not in ("C", "H")]
            if hs and rest:
                # H in its alphabetical place although the formula starts with C
                alpha = sorted(rest + hs, key=lambda x: NC_SYMS.index(x[0]))
                if alpha[0][0] != "H":
                    yield "near:H-alphabetical-with-carbon", mk(F=fm([items[0]] + alpha)), R
            if rest:
                yield "near:C-not-first", mk(F=fm([x for x in items if x[0] != "C"] + [items[0]])), R
        sym = items[j][0]
        yield "near:lowercase-symbol", mk(F=F.replace(sym, sym.lower(), 1)), None        # "CN" -> "Cn" is a sentence
        if len(sym) == 2:
            yield "near:uppercase-symbol", mk(F=F.replace(sym, sym.upper(), 1)), (None if all(ch in ZEBNF for ch in sym.upper()) else R)
    yield "near:missing-first-slash", F + T + ("" if B is None else "/" + B), (None if T == "" and B == "" else R)
    yield "near:missing-all-slashes", F + T + Bx, R
    yield "near:three-slashes", mk(B=Bx) + "/", R
    yield "near:double-first-slash", F + "//" + T + ("" if B is None else "/" + B), (None if T == "" and B is None else R)
    for g in (" ", "\n", "\r\n", "\t", "x", "0", "1", ")", "(", "-", "\x00", "_", "\ufeff", "C", "mass"):
        yield "near:trailing-garbage", base + g, R
    yield "near:trailing-slash", base + "/", ("accept" if B is None else R)
    for g in (" ", "\n", "\ufeff", "/", "1", "2", "("):
        yield "near:leading-garbage", g + base, (None if g == "/" and not items else R)


def huge_numeral_cases():
    """numerals far beyond the interpreter's int-conversion limit: implementation only"""
    big = "9" * 5000
    one = "1" + "0" * 4999
    yield "C" + big + "/"
    yield "CH" + one + "/"
    yield "C2/(1-" + big + ")"
    yield "C2/(" + one + "-1)"
    yield "C2/(" + big + "-" + big + ")"
    yield "C//(1:mass=" + big + ")"
    yield "C//(1:rad=" + one + ")"
    yield "C//(" + big + ":mass=1)"
    yield "C2/(1-2)(2-1)/(1:mass=2)(2:rad=1,mass=" + big + ")"


def large_numeral_cases():
    """large but convertible numerals: implementation vs Python reference (the model's numbers are machine ints)"""
    d = "8" * 4000
    yield "C2/(1-" + d + ")"
    yield "C//(" + d + ":mass=1)"
    yield "C//(1:mass=" + d + ")"
    yield "C//(1:rad=" + "7" * 30 + ",mass=" + "1" + "0" * 25 + ")"
    yield "C2/(1-" + "1" + "0" * 20 + ")"


# ============================================================================ one string, three readers
_FORMULA_PREFIX = re.compile(r"(?:[A-Z][a-z]?[0-9]*)*")
IMPL_MAX_ATOMS = 1200
MODEL_MAX_DIGITS = 15


def atom_budget(s):
    """upper bound of the atoms a reader would expand for s (counts of the leading formula), or None when
    a count is too long to be anything but an int-conversion error"""
    total = 0
    for d in re.findall(r"[0-9]+", _FORMULA_PREFIX.match(s).group(0)):
        if len(d) > 4300:
            return None
        if len(d) > 6:
            return 10 ** 9
        total += int(d)
    return total


def model_can_read(s):
    try:
        s.encode("latin-1")
    except UnicodeEncodeError:
        return False
    return all(len(d) <= MODEL_MAX_DIGITS for d in re.findall(r"[0-9]+", s))


def model_outcome(model, s):
    ans = model.q("parse " + hx(s))
    if ans.startswith("ok "):
        atoms, bonds, rest = dec_mol(ans.split()[1:])
        nb = [tuple(sorted(e)) for e in bonds]
        return ("ok", atoms, sorted(set(nb)), len(nb) == len(set(nb)) and not rest)
    if ans.startswith("err "):
        return ("reject", ans[4:])
    return ("error", ans[:200])


NFA_SAMPLE = 1


def antlr_outcome(s):
    """what the ANTLR lexer and the generated recogniser do with `s`, without the hand-written listener:
    (token types or None when the lexer reports an error, 'accept' | 'syntax' | 'lex' | 'other:<exception>')"""
    from antlr4 import InputStream, CommonTokenStream
    from tucan.parser.tucanLexer import tucanLexer
    from tucan.parser.parser import LexerErrorListener, _prepare_parser, TucanParserException
    types = None
    try:
        lexer = tucanLexer(InputStream(s))
        lexer.removeErrorListeners()
        lexer.addErrorListener(LexerErrorListener())
        ts = CommonTokenStream(lexer)
        ts.fill()
        types = [t.type for t in ts.tokens if t.type != -1]
    except TucanParserException:
        types = None
    except RecursionError:
        return None, "other:RecursionError"
    except Exception as e:
        return None, "other:" + type(e).__name__
    if types is None:
        return None, "lex"
    try:
        _prepare_parser(s).tucan()
        return types, "accept"
    except TucanParserException:
        return types, "syntax"
    except RecursionError:
        return types, "other:RecursionError"
    except Exception as e:
        return types, "other:" + type(e).__name__


def k12(run, model, s, kind):
    c = run.comp("K12")
    c["cases"] += 1
    ans = model.q("antlr " + hx(s))
    mcls, _, mtypes = ans.partition(" ")
    itypes, icls = antlr_outcome(s)
    run.count("K12_outcome:" + icls.split(":")[0])
    problem = None
    if icls.startswith("other"):
        problem = "ANTLR raised %s" % icls
    elif icls != mcls:
        problem = "recogniser outcome: ANTLR %s, translated model %s" % (icls, mcls)
    elif itypes is not None and mtypes not in ("-", "?") and ",".join(map(str, itypes)) != mtypes:
        problem = "token types differ: ANTLR lexer %s, model lexer + literal table %s" % (itypes[:20], mtypes[:80])
    elif itypes is not None and mtypes in ("-", "?"):
        problem = "ANTLR lexer tokenises, model does not (%s)" % mtypes
    if problem is None and (len(s) <= 24 or zlib.crc32(s.encode("latin-1")) % NFA_SAMPLE == 0):
        # the automaton dumped from the lexer's serialized ATN (gen/AntlrLexer.v, simulated by AntlrLex.v) against the real lexer;
        # the simulation is slow (unary state numbers), so short strings and a deterministic sample of the longer ones
        run.count("K12_lexer_automaton_cases")
        nfa = model.q("antlrlex " + hx(s))
        want = "-" if itypes is None else "ok " + ",".join(map(str, itypes))
        if nfa != want:
            problem = "lexer automaton: ANTLR lexer %s, simulated ATN %s" % (want[:80], nfa[:80])
    if problem:
        c["diffs"].append({"what": problem, "case": {"s": s, "kind": kind}})


def show(o):
    return json.dumps(o, default=str)[:400]


def compare_graphs(io, other):
    """None when the implementation's accepted graph equals the other reader's, else a description"""
    if list(io[1]) != list(other[1]):
        return "atoms differ"
    if list(io[2]) != list(other[2]):
        return "bonds differ"
    return None


class Checker:
    """runs the three readers on strings and keeps the books of one Run"""

    def __init__(self, run, model, prop="C10", book=True):
        self.run, self.model, self.prop, self.book = run, model, prop, book
        self.seen = {}
        self.sample_slots = {("accept", "valid"), ("accept", "tok"), ("reject", "tok"), ("reject", "chr"), ("reject", "near"), ("reject", "fixed")}
        self.problems = 0          # hits + diffs produced through this checker

    def hit(self, what, s, kind, io, ref):
        self.problems += 1
        self.run.falsifier_hits.append({"property": "C10", "what": what,
                                        "case": {"s": s, "kind": kind, "impl": show(io), "ref": show(ref)}})

    def diff(self, what, s, kind, io, mo):
        self.problems += 1
        self.run.comp("K8")["diffs"].append({"what": what, "case": {"s": s, "kind": kind, "impl": show(io), "model": show(mo)}})

    def check(self, s, kind, expect=None, fixed_expect=None, use_ref=True):
        """fixed_expect: outcome demanded by the property text directly (huge numerals), the reference reader is not asked.
        Returns 'accept' | 'reject' | 'unrelated' | 'skipped'."""
        run = self.run
        if s in self.seen:
            if self.book:
                run.count("duplicate_strings")
            return self.seen[s]
        budget = atom_budget(s)
        if budget is not None and budget > IMPL_MAX_ATOMS:
            if self.book:
                run.count("skipped:formula_expands_to_more_than_%d_atoms" % IMPL_MAX_ATOMS)
            self.seen[s] = "skipped"
            return "skipped"
        io = impl.parse_outcome(s)
        res = {"ok": "accept", "reject": "reject", "unrelated": "unrelated"}[io[0]]
        self.seen[s] = res
        if self.book:
            run.evaluations += 1
        # ---------------- C10 falsifier: implementation alone
        if io[0] == "unrelated":
            self.hit("parser raised an unrelated error instead of TucanParserException: " + io[1], s, kind, io, None)
        if io[0] == "ok":
            if not io[3]:
                self.hit("element_symbol does not match atomic_number on some atom", s, kind, io, None)
            if [a[0] for a in io[1]] != list(range(len(io[1]))):
                self.hit("node labels of the parsed graph are not 0..n-1", s, kind, io, None)
        ref = None
        if fixed_expect is not None:
            if res != fixed_expect and io[0] != "unrelated":
                self.hit("outcome %s where the property text demands %s" % (res, fixed_expect), s, kind, io, None)
        elif use_ref:
            ref = ref_parse(s)
            if ref[0] == "toolarge":
                run.count("skipped_reference:too_large")
            elif ref[0] == "ok":
                if io[0] == "reject":
                    self.hit("rejected a sentence that the grammar and the index/attribute rules allow", s, kind, io, ref)
                elif io[0] == "ok":
                    d = compare_graphs(io, ref)
                    if d:
                        self.hit("accepted, but the graph is not the denoted one: " + d, s, kind, io, ref)
            else:
                if io[0] == "ok":
                    self.hit("accepted a string that the reference reader rejects (%s)" % ref[1], s, kind, io, ref)
            if expect is not None and ref[0] != "toolarge" and (ref[0] == "ok") != (expect == "accept"):
                run.count("selfcheck_mismatch")
                run.notes.append("selfcheck: generator expected %s, reference reader says %s for %r (%s)" % (expect, ref[:2] if ref[0] != "ok" else "ok", s[:80], kind))
        # ---------------- K8: implementation vs Coq reference
        mcls = None
        if self.model is not None and model_can_read(s) and fixed_expect is None:
            mo = model_outcome(self.model, s)
            run.comp("K8")["cases"] += 1
            if mo[0] == "error":
                self.diff("model driver failed", s, kind, io, mo)
            elif mo[0] == "ok":
                mcls = "ok"
                if not mo[3]:
                    self.diff("model lists a bond twice / trailing output", s, kind, io, mo)
                if io[0] == "ok":
                    d = compare_graphs(io, mo)
                    if d:
                        self.diff("both accept, graphs differ: " + d, s, kind, io, mo)
                else:
                    self.diff("model accepts, implementation does not", s, kind, io, mo)
            else:
                mcls = mo[1]
                if io[0] == "ok":
                    self.diff("implementation accepts, model rejects (%s)" % mo[1], s, kind, io, mo)
            if ref is not None and ref[0] != "toolarge" and (ref[0] == "ok") != (mo[0] == "ok") and mo[0] != "error":
                run.count("references_disagree")
                run.notes.append("the two reference readers disagree on %r: python %s, coq %s" % (s[:80], ref[0], mo[:2]))
        else:
            if self.book:
                run.count("model_not_asked")
        # ---------------- K12: the real ANTLR lexer + generated recogniser against their translation (gen/Antlr.v run by AntlrExec.v)
        if self.model is not None and model_can_read(s) and fixed_expect is None and len(s) <= 4000:
            k12(run, self.model, s, kind)
        # ---------------- books
        if self.book:
            cls = mcls if mcls not in (None, "ok") else ("ref:" + ref[1] if ref and ref[0] == "reject" else "impl-only")
            k0 = kind.split(":")[0] if kind.startswith(("tok-", "chr-")) else kind
            run.count("kind:" + k0)
            run.count("outcome:" + res)
            L = len(s)
            run.count("len:" + ("0-9" if L < 10 else "10-29" if L < 30 else "30-99" if L < 100 else "100-999" if L < 1000 else ">=1000"))
            if io[0] == "ok":
                na, nb = len(io[1]), len(io[2])
                run.count("atoms:" + ("0" if na == 0 else "1-2" if na <= 2 else "3-12" if na <= 12 else "13-60" if na <= 60 else ">60"))
                if na >= 3 and nb >= 1:
                    run.nontrivial.add(("acc", s))
                slot = ("accept", kind[:3] if kind.startswith(("tok", "chr")) else kind.split(":")[0])
                if slot in self.sample_slots and na >= 4 and nb >= 2 and L < 120:
                    self.sample_slots.discard(slot)
                    run.samples.append({"s": s, "kind": kind, "outcome": "accepted", "atoms": na, "bonds": nb})
            else:
                run.count("error_class:" + cls)
                key = ("rej", kind, cls)
                run.nontrivial.add(key)
                slot = ("reject", kind[:3] if kind.startswith(("tok", "chr")) else kind.split(":")[0])
                if slot in self.sample_slots and 8 <= L < 120 and cls not in ("lex", "impl-only"):
                    self.sample_slots.discard(slot)
                    run.samples.append({"s": s, "kind": kind, "outcome": "rejected", "class": cls})
        return res


# ============================================================================ C10
def c10(run, model):
    quick = run.tier == "quick"
    scale = (1 if quick else 10) * getattr(run, "scale", 1)
    for d in EBNF_DRIFT:
        run.broken.append("reference reader out of date: " + d)
    ck = Checker(run, model)
    # fixed corner cases
    for s, exp in FIXED:
        ck.check(s, "fixed", expect=exp)
    # generated sentences
    rng = run.sub_rng("c10/sentences")
    bases = []
    for _ in range(1200 * scale):
        ast = gen_sentence(rng)
        s = emit(ast)
        r = ck.check(s, "valid", expect="accept")
        if r == "accept":
            bases.append(ast)
        run.count("formula_items:" + ("0" if not ast["items"] else "1-3" if len(ast["items"]) <= 3 else "4-20" if len(ast["items"]) <= 20 else ">20"))
        run.count("attribute_part:" + ("absent" if ast["blocks"] is None else "empty" if not ast["blocks"] else "blocks"))
    # token mutants: exhaustive over a (reduced in quick) alphabet on a small sentence ...
    rngm = run.sub_rng("c10/token-mutants")
    small = {"items": [("C", None), ("H", 2)], "tuples": [(1, 2), (2, 3)], "blocks": [(1, [("mass", 2), ("rad", 3)])]}
    if quick:
        alpha = PUNCT + KEYS + ["0", "1", "01", "10", "2", "3", "100", "99999"] + ["C", "H", "Cl", "He", "N", "O", "Ac", "Zr", "Ca", "Hf", "B", "Og"]
    else:
        alpha = ALPHABET
    ck.check(emit(small), "valid", expect="accept")
    for kind, s in token_mutants_exhaustive(tokens_of(small), alpha):
        ck.check(s, kind)
    if not quick:
        for ast in ({"items": [("Cl", None), ("H", None)], "tuples": [(2, 1)], "blocks": None},
                    {"items": [("C", 10), ("H", None), ("Cl", 2), ("Co", None)], "tuples": [(11, 1)], "blocks": [(12, [("rad", 10)]), (12, [("mass", 1)])]}):
            ck.check(emit(ast), "valid", expect="accept")
            for kind, s in token_mutants_exhaustive(tokens_of(ast), ALPHABET):
                ck.check(s, kind)
    # ... and sampled on many sentences
    shortish = [a for a in bases if len(tokens_of(a)) <= 45]
    pick = rngm.sample(shortish, min(len(shortish), 50 * scale))
    for ast in pick:
        for kind, s in token_mutants(tokens_of(ast), rngm, 40):
            ck.check(s, kind)
    # raw-character mutants
    rngc = run.sub_rng("c10/char-mutants")
    pick = rngc.sample(shortish, min(len(shortish), 35 * scale))
    for ast in pick:
        for kind, s in char_mutants(emit(ast), rngc, 30):
            ck.check(s, kind)
    # near misses
    rngn = run.sub_rng("c10/near-misses")
    smallish = [a for a in bases if len(emit(a)) <= 200]
    pick = rngn.sample(smallish, min(len(smallish), 8 * scale))
    empties = [a for a in bases if not a["items"]][:1]
    for ast in pick + empties:
        for kind, s, exp in near_misses(ast, rngn):
            ck.check(s, kind, expect=exp)
    # numerals beyond the int-conversion limit: TucanParserException demanded, nobody else is asked
    if sys.get_int_max_str_digits() and sys.get_int_max_str_digits() < 5000:
        for s in huge_numeral_cases():
            ck.check(s, "huge-numeral", fixed_expect="reject")
    else:
        run.notes.append("int-conversion limit disabled: 5000-digit numerals not exercised")
    for s in large_numeral_cases():
        ck.check(s, "large-numeral")
    return ck


# ============================================================================ C11
RESPELLINGS = ["tuple-order", "tuple-swap", "tuple-repeat", "block-order", "block-split", "block-merge", "prop-order",
               "renumber", "attr-part", "combined"]


def element_blocks(ast):
    """index ranges (1-based, inclusive) of equal atomic number in the numbering of the string"""
    zs = []
    for sym, c in ast["items"]:
        zs += [ZEBNF[sym]] * (c or 1)
    zs.sort()
    out, start = [], 0
    for i in range(1, len(zs) + 1):
        if i == len(zs) or zs[i] != zs[start]:
            out.append((start + 1, i))
            start = i
    return out


def respell(ast, kind, rng):
    """(ast2, perm) with perm = {old index: new index} or None; None when the kind does not apply"""
    items, ts = ast["items"], list(ast["tuples"])
    bs = None if ast["blocks"] is None else [(i, list(ps)) for i, ps in ast["blocks"]]
    perm = None
    if kind == "tuple-order":
        if len(set(ts)) < 2:
            return None
        for _ in range(5):
            t2 = list(ts); rng.shuffle(t2)
            if t2 != ts:
                break
        if t2 == ts:
            return None
        ts = t2
    elif kind == "tuple-swap":
        if not ts:
            return None
        force = rng.randrange(len(ts))
        ts = [(b, a) if (j == force or rng.random() < .5) else (a, b) for j, (a, b) in enumerate(ts)]
    elif kind == "tuple-repeat":
        if not ts:
            return None
        for _ in range(rng.randint(1, 3)):
            a, b = rng.choice(ts)
            ts.insert(rng.randint(0, len(ts)), (a, b) if rng.random() < .5 else (b, a))
    elif kind == "block-order":
        if not bs or len(bs) < 2:
            return None
        for _ in range(5):
            b2 = list(bs); rng.shuffle(b2)
            if b2 != bs:
                break
        if b2 == bs:
            return None
        bs = b2
    elif kind == "block-split":
        cand = [j for j, (_, ps) in enumerate(bs or []) if len(ps) >= 2]
        if not cand:
            return None
        j = rng.choice(cand)
        i, ps = bs[j]
        first, second = (ps[:1], ps[1:]) if rng.random() < .5 else (ps[1:], ps[:1])
        bs[j] = (i, first)
        bs.insert(rng.randint(0, len(bs)), (i, second))
    elif kind == "block-merge":
        idxs = [i for i, _ in bs or []]
        dup = [i for i in set(idxs) if idxs.count(i) >= 2]
        if not dup:
            return None
        i = rng.choice(sorted(dup))
        parts = [ps for k, ps in bs if k == i]
        merged = [p for ps in parts for p in ps]
        if rng.random() < .5:
            merged.reverse()
        pos = idxs.index(i)
        bs = [(k, ps) for k, ps in bs if k != i]
        bs.insert(min(pos, len(bs)), (i, merged))
    elif kind == "prop-order":
        cand = [j for j, (_, ps) in enumerate(bs or []) if len(ps) >= 2]
        if not cand:
            return None
        for j in cand:
            bs[j] = (bs[j][0], list(reversed(bs[j][1])))
    elif kind == "renumber":
        blocks = [(a, b) for a, b in element_blocks(ast) if b > a]
        if not blocks:
            return None
        perm = {i: i for i in range(1, n_atoms(ast) + 1)}
        changed = False
        for a, b in blocks:
            if changed and rng.random() < .3:
                continue
            old = list(range(a, b + 1))
            for _ in range(5):
                new = list(old); rng.shuffle(new)
                if new != old:
                    break
            for o, nw in zip(old, new):
                perm[o] = nw
            changed = changed or new != old
        if not changed:
            return None
        ts = [(perm[a], perm[b]) for a, b in ts]
        bs = None if bs is None else [(perm[i], ps) for i, ps in bs]
    elif kind == "attr-part":
        if bs is None:
            bs = []
        elif bs == []:
            bs = None
        else:
            return None
    else:
        raise ValueError(kind)
    return {"items": items, "tuples": ts, "blocks": bs}, perm


def respell_combined(ast, rng):
    kinds = [k for k in RESPELLINGS if k not in ("combined", "block-merge")]
    rng.shuffle(kinds)
    cur, perm, applied = ast, None, []
    for k in kinds:
        r = respell(cur, k, rng)
        if r is None:
            continue
        cur = r[0]
        applied.append(k)
        if r[1] is not None:
            perm = r[1]
    return (cur, perm, applied) if applied else None


def norm(s):
    """('ok', string) | ('exc', description)"""
    try:
        return ("ok", impl.tucan_of(impl.graph_from_tucan(s)))
    except Exception as e:
        return ("exc", type(e).__name__ + ": " + str(e)[:80])


def renamed_graph(ref, perm):
    """the graph the reference reader gives for s, with its atoms renamed by perm (1-based old -> new)"""
    atoms, bonds = ref[1], ref[2]
    if perm is None:
        return list(atoms), list(bonds)
    p = {o - 1: nw - 1 for o, nw in perm.items()}
    a2 = sorted((p[l], z, m, r, part) for l, z, m, r, part in atoms)
    b2 = sorted(tuple(sorted((p[u], p[v]))) for u, v in bonds)
    return a2, b2


def check_respelling(run, model, ck, s, ref, n0, kind, s2, perm, book=True):
    """one respelling s2 of s (norm(s) = n0): C11 falsifier + K8 on s2. Returns True when something failed."""
    failed = False
    run.evaluations += 1
    r2 = ref_read(s2)
    if r2[0] != "ok" or (list(r2[1]), list(r2[2])) != renamed_graph(ref, perm):
        run.count("selfcheck_mismatch")
        run.notes.append("selfcheck: respelling %s of %r gives %r which does not denote the same molecule for the reference reader" % (kind, s[:80], s2[:80]))
        return False
    case = {"s": s, "respelled": s2, "norm_s": n0}
    m2 = norm(s2)
    if m2[0] != "ok":
        failed = True
        run.falsifier_hits.append({"property": "C11", "what": kind, "case": dict(case, problem="normalising the respelling raised " + m2[1])})
    elif m2[1] != n0:
        failed = True
        run.falsifier_hits.append({"property": "C11", "what": kind, "case": dict(case, norm_respelled=m2[1], problem="norm differs")})
    before = ck.problems
    ck.check(s2, "respelling:" + kind, expect="accept")
    failed = failed or ck.problems > before
    if book:
        run.count("respelling:" + kind)
        run.count("respelling_changed_string:" + str(s2 != s))
        na, nb = len(ref[1]), len(ref[2])
        if s2 != s and na >= 3 and nb >= 2:
            run.nontrivial.add((kind, s, s2))
    return failed


def check_base(run, model, ck, s, rng, source, per_base=3):
    """idempotence of norm on s and a few respellings of s"""
    ref = ref_read(s)
    if ref[0] != "ok":
        run.count("selfcheck_mismatch")
        run.notes.append("selfcheck: base string %r (%s) is not a sentence for the reference reader: %s" % (s[:80], source, ref[:2]))
        return
    ast = ref[3]
    na, nb = len(ref[1]), len(ref[2])
    run.count("base:" + source)
    run.count("base_atoms:" + ("0" if na == 0 else "1-2" if na <= 2 else "3-12" if na <= 12 else "13-60" if na <= 60 else ">60"))
    run.evaluations += 1
    n0 = norm(s)
    if n0[0] != "ok":
        what = "norm raises on an accepted string" + (" (empty molecule)" if na == 0 else "")
        if not any(h["property"] == "C11" and h["what"] == what for h in run.falsifier_hits):
            run.falsifier_hits.append({"property": "C11", "what": what, "key": "norm-raises" + ("-empty-molecule" if na == 0 else ""),
                                       "case": {"s": s, "respelled": s, "problem": n0[1]}})
        else:
            run.count("further_hits_of_a_recorded_kind")
        return
    n0 = n0[1]
    n1 = norm(n0)
    if n1 != ("ok", n0):
        run.falsifier_hits.append({"property": "C11", "what": "norm(norm(s)) != norm(s)",
                                   "case": {"s": s, "respelled": n0, "norm_s": n0, "norm_respelled": n1[1]}})
    applicable = []
    for k in RESPELLINGS[:-1]:
        r = respell(ast, k, rng)
        if r is not None:
            applicable.append((k, r))
    rng.shuffle(applicable)
    rare = ("block-split", "block-merge", "prop-order")            # always taken when they apply
    applicable = [x for x in applicable if x[0] in rare] + [x for x in applicable if x[0] not in rare][:per_base]
    for k, (ast2, perm) in applicable:
        check_respelling(run, model, ck, s, ref, n0, k, emit(ast2), perm)
    rc = respell_combined(ast, rng)
    if rc is not None and len(rc[2]) >= 2:
        check_respelling(run, model, ck, s, ref, n0, "combined", emit(rc[0]), rc[1])
        run.count("combined_steps:%d" % len(rc[2]))
    if len(run.samples) < 6 and na >= 4 and nb >= 3 and applicable and len(s) < 160 and \
            applicable[0][0] not in [x.get("respelling") for x in run.samples] and emit(applicable[0][1][0]) != s:
        k, (ast2, perm) = applicable[0]
        run.samples.append({"s": s, "source": source, "respelling": k, "respelled": emit(ast2), "norm": n0})


def c11(run, model):
    quick = run.tier == "quick"
    scale = getattr(run, "scale", 1)
    for d in EBNF_DRIFT:
        run.broken.append("reference reader out of date: " + d)
    ck = Checker(run, model, book=False)
    rng = run.sub_rng("c11/respellings")
    # (a) canonical strings of the shared molecule stream
    for am in gens.standard_stream(run.sub_rng("c11/molecules"), run.tier):
        s = impl.tucan_of(impl.graph_of(am))
        run.count("family:" + am.family.split(":")[0])
        check_base(run, model, ck, s, rng, "canonical")
    # (b) generated sentences (not canonical: arbitrary tuple order, split blocks, ...)
    rngs = run.sub_rng("c11/sentences")
    for s, exp in FIXED:
        if exp == "accept":
            check_base(run, model, ck, s, rng, "fixed")
    for _ in range((110 if quick else 1100) * scale):
        ast = gen_sentence(rngs, max_atoms=rngs.choice([6, 12, 12, 30, 60]))
        check_base(run, model, ck, emit(ast), rng, "generated", per_base=4)
    return ck


# ============================================================================ replay
def replay_parse(run, model, hit):
    """Re-run the comparison behind a recorded falsifier hit (C10 / C11) or K8 diff. True = it still fails."""
    case = hit.get("case") or {}
    s = case.get("s")
    if s is None:
        print("recorded case names no string")
        return False
    ck = Checker(run, model, book=False)
    failed = False
    if hit.get("property") == "C11":
        s2 = case.get("respelled", s)
        n0, n2 = norm(s), norm(s2)
        print("norm(s)         :", n0)
        print("norm(respelled) :", n2)
        if n0[0] != "ok" or n2[0] != "ok" or n0[1] != n2[1]:
            failed = True
        if n0[0] == "ok" and norm(n0[1]) != n0:
            print("norm(norm(s))   :", norm(n0[1]))
            failed = True
        ck.check(s2, "replay")
    else:
        kind = case.get("kind", "replay")
        ck.check(s, kind, fixed_expect="reject" if kind == "huge-numeral" else None)
        print("implementation  :", show(impl.parse_outcome(s)))
        print("python reference:", show(ref_parse(s)) if kind != "huge-numeral" else "(not asked)")
        if model is not None and model_can_read(s) and kind != "huge-numeral":
            print("coq reference   :", show(model_outcome(model, s)))
    return failed or ck.problems > 0


def shrink(s, still_fails):
    """greedy one-character-deletion shrinking of a failing string"""
    changed = True
    while changed:
        changed = False
        for i in range(len(s)):
            t = s[:i] + s[i + 1:]
            if still_fails(t):
                s, changed = t, True
                break
    return s


# ============================================================================ specs for props.SPECS
PARSE_ASSUME = ["the Gallina reference reader (coq/Model/Parse.v) computes what the ANTLR recogniser + listener compute: checked by K8 on this run's strings, assumed beyond",
                "ANTLR runtime and generated tucanLexer.py / tucanParser.py are not modelled; they are only observed through graph_from_tucan"]
SPECS = {
    "C10": dict(fn=c10, level="proof", components=["K8", "K12"], assumptions=PARSE_ASSUME,
                rule="grammar-directed sentences over all 118 symbols (both Hill shapes, prefix traps, counts none/2/9/10/11/100, empty formula, empty attribute part, split blocks) "
                     "+ single-token insertions/deletions/replacements/transpositions (exhaustive on a small sentence, sampled on many) + raw-character mutants (space, newline, lowercase, "
                     "unicode digits, NUL, BOM) + semantic near-misses (self loop, index 0 / n+1, duplicate attribute, mass=0, count 1/01, Hill order, missing/extra slash, garbage) "
                     "+ 5000-digit numerals; every string read by the implementation, by a Python reference reader written from tucan.ebnf (falsifier) and by the Coq reference (K8); "
                     "K12: the ANTLR lexer's token types and the generated recogniser's verdict (no listener) against the translated recogniser gen/Antlr.v run by AntlrExec.v. "
                     "non-trivial = accepted string with >= 3 atoms and >= 1 tuple (once each) or rejected string, once per distinct (mutation kind, error class)"),
    "C11": dict(fn=c11, level="proof", components=["K8"], assumptions=PARSE_ASSUME,
                rule="canonical strings of gens.standard_stream + generated non-canonical sentences; per string: idempotence of norm and respellings (tuple order / orientation / repetition, "
                     "block order / split / merge, property order, renumbering within element blocks, empty attribute part, all combined), each validated against the Python reference reader; "
                     "norm compared byte for byte; K8 on every respelled string. non-trivial = respelling that changed the string of a molecule with >= 3 atoms and >= 2 bonds"),
}


def replay(run, model, rp):
    """same contract as props.replay, for C10 / C11 replay files"""
    hit = rp.get("hit") or (rp.get("first_differing_case") or {}).get("case")
    if not hit:
        print("replay file names no failing input: ", json.dumps(rp.get("broken")))
        return 1
    if replay_parse(run, model, hit):
        print("VIOLATION property=%s replay=%s" % (rp.get("property"), "(replayed)"))
        return 1
    print("not reproduced")
    return 0


# ============================================================================ self-test
def _selftest(tier, seed):
    rc = 0
    for prop, fn in (("C10", c10), ("C11", c11)):
        run = common.Run(prop, tier, seed)
        model = common.Model()
        t0 = time.time()
        try:
            fn(run, model)
        finally:
            wall = time.time() - t0
            calls = model.calls
            model.close()
        k8 = run.comp("K8")
        print("=" * 100)
        print("%s tier=%s seed=%d: evaluations=%d nontrivial=%d K8 cases=%d diffs=%d falsifier hits=%d model calls=%d wall=%.1fs" % (
            prop, tier, seed, run.evaluations, len(run.nontrivial), k8["cases"], len(k8["diffs"]), len(run.falsifier_hits), calls, wall))
        if run.broken:
            print("broken:", run.broken)
        for k in sorted(run.hist):
            print("   %-60s %d" % (k, run.hist[k]))
        if prop == "C10":
            print("   accepted non-trivial: %d; rejected (kind, class) keys: %d" % (sum(1 for k in run.nontrivial if k[0] == "acc"), sum(1 for k in run.nontrivial if k[0] == "rej")))
        print("samples:")
        for smp in run.samples[:6]:
            print("   ", json.dumps(smp, ensure_ascii=True)[:300])
        for n in sorted(set(run.notes))[:30]:
            print("note:", n[:300])
        for h in run.falsifier_hits[:15]:
            print("HIT ", json.dumps(h, ensure_ascii=True, default=str)[:700])
        for d in k8["diffs"][:15]:
            print("DIFF", json.dumps(d, ensure_ascii=True, default=str)[:700])
        if run.falsifier_hits or k8["diffs"] or run.broken:
            rc = 1
            model = common.Model()
            for h in (run.falsifier_hits + k8["diffs"])[:3]:
                r2 = common.Run(prop, tier, seed)
                print("replay ->", replay_parse(r2, model, h))
            model.close()
    return rc


if __name__ == "__main__":
    tier = sys.argv[1] if len(sys.argv) > 1 else "quick"
    seed = int(sys.argv[2]) if len(sys.argv) > 2 else int(os.environ.get("VERIF_SEED", "0") or 0)
    sys.exit(_selftest(tier, seed))
