"""AST fingerprints of the modelled source functions.  A mismatch is not an alarm: it means the source
changed since the model was written, and the checks then spend a multiple of their normal budget
(run.scale) on correspondence and falsification.  `python fingerprint.py --write` records the current state."""
import ast, hashlib, json, os, sys

REPO = os.environ.get("TUCAN_REPO", "/repo")
HERE = os.path.dirname(os.path.abspath(__file__))
FILES = ["tucan/canonicalization.py", "tucan/serialization.py", "tucan/graph_utils.py", "tucan/element_attributes.py", "tucan/graph_attributes.py",
         "tucan/parser/parser.py", "tucan/io/molfile_reader.py", "tucan/io/molfile_v3000_reader.py", "tucan/io/molfile_v2000_reader.py",
         "tucan/io/molfile_writer.py", "tucan/parser/tucan.g4", "tucan/parser/tucan.ebnf", "tucan/parser/tucanParser.py", "tucan/parser/tucanLexer.py"]


def current():
    out = {}
    for rel in FILES:
        p = os.path.join(REPO, rel)
        try:
            src = open(p).read()
        except OSError:
            out[rel] = "missing"
            continue
        if not rel.endswith(".py") or "tucanParser" in rel or "tucanLexer" in rel:
            out[rel] = hashlib.sha1(src.encode()).hexdigest()[:16]
            continue
        try:
            tree = ast.parse(src)
        except SyntaxError:
            out[rel] = "syntax-error"
            continue
        for node in ast.walk(tree):
            if isinstance(node, (ast.FunctionDef, ast.ClassDef)):
                out["%s::%s" % (rel, node.name)] = hashlib.sha1(ast.dump(node, include_attributes=False).encode()).hexdigest()[:16]
        top = [n for n in tree.body if not isinstance(n, (ast.FunctionDef, ast.ClassDef))]
        out[rel + "::<module>"] = hashlib.sha1("".join(ast.dump(n, include_attributes=False) for n in top).encode()).hexdigest()[:16]
    return out


def changed():
    """names whose fingerprint differs from the recorded one"""
    try:
        rec = json.load(open(os.path.join(HERE, "fingerprints.json")))
    except OSError:
        return ["fingerprints.json missing"]
    cur = current()
    return sorted(k for k in set(rec) | set(cur) if rec.get(k) != cur.get(k))


if __name__ == "__main__":
    if "--write" in sys.argv:
        json.dump(current(), open(os.path.join(HERE, "fingerprints.json"), "w"), indent=1, sort_keys=True)
    print(json.dumps(changed()))
