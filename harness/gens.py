"""Generators of abstract molecules and of alternative descriptions of one molecule.

An abstract molecule is AM(zs, mass, rad, edges): atomic numbers by position, sparse
isotope / radical labels, undirected simple edges over positions.  Everything random is
drawn from the rng passed in (derived from VERIF_SEED), so every case replays."""
import itertools, os, glob


class AM:
    __slots__ = ("zs", "mass", "rad", "edges", "family")

    def __init__(self, zs, edges, mass=None, rad=None, family=""):
        self.zs = list(zs)
        self.edges = [tuple(e) for e in edges]
        self.mass = dict(mass or {})
        self.rad = dict(rad or {})
        self.family = family

    def n(self):
        return len(self.zs)

    def to_json(self):
        return {"zs": self.zs, "edges": [list(e) for e in self.edges], "mass": {str(k): v for k, v in self.mass.items()},
                "rad": {str(k): v for k, v in self.rad.items()}, "family": self.family}

    @staticmethod
    def from_json(d):
        return AM(d["zs"], d["edges"], {int(k): v for k, v in d.get("mass", {}).items()},
                  {int(k): v for k, v in d.get("rad", {}).items()}, d.get("family", ""))

    def key(self):
        return (tuple(self.zs), tuple(sorted(self.mass.items())), tuple(sorted(self.rad.items())),
                tuple(sorted(tuple(sorted(e)) for e in self.edges)))


def relist(am, rng, identity=False):
    """Another description of the same molecule: positions permuted (old -> new = p),
    edges shuffled and randomly oriented."""
    n = am.n()
    p = list(range(n))
    if not identity:
        rng.shuffle(p)
    inv = [0] * n
    for o, nw in enumerate(p):
        inv[nw] = o
    zs2 = [am.zs[inv[i]] for i in range(n)]
    e2 = [(p[u], p[v]) if rng.random() < .5 else (p[v], p[u]) for u, v in am.edges]
    rng.shuffle(e2)
    return AM(zs2, e2, {p[i]: v for i, v in am.mass.items()}, {p[i]: v for i, v in am.rad.items()}, am.family), p


def apply_perm(am, p):
    n = am.n()
    inv = [0] * n
    for o, nw in enumerate(p):
        inv[nw] = o
    return AM([am.zs[inv[i]] for i in range(n)], [(p[u], p[v]) for u, v in am.edges],
              {p[i]: v for i, v in am.mass.items()}, {p[i]: v for i, v in am.rad.items()}, am.family)


# ---------------------------------------------------------------- skeletons
def cycle(n): return n, [(i, (i + 1) % n) for i in range(n)]
def path(n): return n, [(i, i + 1) for i in range(n - 1)]
def complete(n): return n, list(itertools.combinations(range(n), 2))
def kbip(a, b): return a + b, [(i, a + j) for i in range(a) for j in range(b)]
def cube(): return 8, [(i, i ^ b) for i in range(8) for b in (1, 2, 4) if i < i ^ b]
def prism(k): return 2 * k, [(i, (i + 1) % k) for i in range(k)] + [(k + i, k + (i + 1) % k) for i in range(k)] + [(i, k + i) for i in range(k)]
def petersen(): return 10, [(i, (i + 1) % 5) for i in range(5)] + [(5 + i, 5 + (i + 2) % 5) for i in range(5)] + [(i, i + 5) for i in range(5)]
def hypercube(d): return 2 ** d, [(i, i ^ (1 << b)) for i in range(2 ** d) for b in range(d) if i < i ^ (1 << b)]
def star(k): return k + 1, [(0, i) for i in range(1, k + 1)]
def ladder(k): return 2 * k, [(i, i + 1) for i in range(k - 1)] + [(k + i, k + i + 1) for i in range(k - 1)] + [(i, k + i) for i in range(k)]
def comb(k): return 2 * k, [(i, i + 1) for i in range(k - 1)] + [(i, k + i) for i in range(k)]
def kn_minus_matching(n): return n, [e for e in itertools.combinations(range(n), 2) if not (e[0] % 2 == 0 and e[1] == e[0] + 1)]
def two(sk):
    n, e = sk
    return 2 * n, e + [(u + n, v + n) for u, v in e]
def dodecahedron():
    import networkx as nx
    g = nx.dodecahedral_graph()
    return 20, list(g.edges)
def shrikhande():
    e = []
    for a in range(4):
        for b in range(4):
            for da, db in ((1, 0), (0, 1), (1, 1)):
                e.append(((a * 4 + b), ((a + da) % 4) * 4 + (b + db) % 4))
    return 16, sorted(set(tuple(sorted(x)) for x in e))
def rook4():
    e = []
    for a in range(4):
        for b in range(4):
            for c in range(4):
                if c != b: e.append((a * 4 + b, a * 4 + c))
                if c != a: e.append((a * 4 + b, c * 4 + b))
    return 16, sorted(set(tuple(sorted(x)) for x in e))


SKELETONS = {
    "ring5": cycle(5), "ring6": cycle(6), "ring8": cycle(8), "path7": path(7), "K4": complete(4), "K5": complete(5),
    "K33": kbip(3, 3), "K24": kbip(2, 4), "cube": cube(), "prism3": prism(3), "prism5": prism(5), "petersen": petersen(),
    "Q4": hypercube(4), "star4": star(4), "ladder4": ladder(4), "comb4": comb(4), "K6-m": kn_minus_matching(6),
    "2xring4": two(cycle(4)), "2xK4": two(complete(4)), "ring6+ring6": two(cycle(6)), "ring12": cycle(12),
    "shrikhande": shrikhande(), "rook4x4": rook4(),
}


def skeleton_cases(rng, names=None, per=4):
    """Symmetric skeletons, all carbon, with 0-3 isotope / radical labels on random atoms."""
    for name in (names or list(SKELETONS)):
        n, edges = SKELETONS[name]
        for t in range(per):
            k = [0, 1, 2, 3][t % 4]
            idx = rng.sample(range(n), min(k, n))
            mass = {i: rng.choice([13, 14]) for i in idx}
            rad = {rng.randrange(n): 2} if rng.random() < .3 else {}
            z = 6
            zs = [z] * n
            if rng.random() < .25:
                zs[rng.randrange(n)] = 7
            yield AM(zs, edges, mass, rad, "skeleton:" + name)


PALETTES = [[6, 6, 6, 1, 1, 8, 7], [6, 7], [6], [1, 6, 8, 17, 27, 89, 13, 47], [9, 17, 35, 53, 6], [1, 2, 72, 80, 108, 6]]


def random_mol(rng, nmax=12, family="random"):
    n = rng.randint(1, nmax)
    pal = rng.choice(PALETTES)
    zs = [rng.choice(pal) for _ in range(n)]
    p = rng.choice([0.0, .1, .2, .35, .6, .9, 1.0])
    edges = [(i, j) for i in range(n) for j in range(i + 1, n) if rng.random() < p]
    mass = {i: rng.choice([1, 2, 3, 13, 14, 200]) for i in range(n) if rng.random() < .15}
    rad = {i: rng.choice([1, 2, 3]) for i in range(n) if rng.random() < .1}
    return AM(zs, edges, mass, rad, family)


def multi_component(rng):
    n, e = SKELETONS[rng.choice(["ring5", "K4", "path7", "star4", "ring6"])]
    k = rng.randint(2, 4)
    zs = []; edges = []; mass = {}
    for c in range(k):
        off = len(zs)
        zs += [6] * n
        edges += [(u + off, v + off) for u, v in e]
        if rng.random() < .5:
            mass[off + rng.randrange(n)] = 13
    for _ in range(rng.randint(0, 3)):
        zs.append(rng.choice([1, 8, 11, 17]))
    return AM(zs, edges, mass, {}, "multi")


def bicyclo222(): return 8, [(0, 2), (2, 3), (3, 1), (0, 4), (4, 5), (5, 1), (0, 6), (6, 7), (7, 1)]
def adamantane(): return 10, [(0, 4), (0, 5), (0, 6), (1, 4), (1, 7), (1, 8), (2, 5), (2, 7), (2, 9), (3, 6), (3, 8), (3, 9)]


def cage_salt(rng):
    """a symmetric polycycle together with so many further fragments (ions, waters) that the compound has fewer bonds
    than atoms although it contains rings: salts, hydrates, solvates"""
    name, (n, e) = rng.choice([("bicyclo222", bicyclo222()), ("adamantane", adamantane()), ("cube", cube()), ("prism3", prism(3)), ("K4", complete(4))])
    rings = len(e) - n + 1
    zs = [6] * n
    if name in ("bicyclo222",) and rng.random() < .5:
        zs[0] = zs[1] = 7
    edges = list(e)
    for _ in range(rings + rng.randint(0, 2)):
        r = rng.random()
        if r < .5:
            zs.append(rng.choice([17, 35, 11, 8]))
        elif r < .8:
            o = len(zs); zs += [8, 1, 1]; edges += [(o, o + 1), (o, o + 2)]
        else:
            o = len(zs); zs += [6, 6]; edges += [(o, o + 1)]
    if rng.random() < .4:
        # hydrogens on the cage
        for i in range(n):
            zs.append(1); edges.append((i, len(zs) - 1))
        for _ in range(n):
            zs.append(rng.choice([17, 8]))
    mass = {rng.randrange(len(zs)): 13} if rng.random() < .2 else {}
    return AM(zs, edges, {i: m for i, m in mass.items() if zs[i] == 6}, {}, "cage-salt:" + name)


def decalin(): return 10, [(0, 1), (1, 2), (2, 3), (3, 4), (4, 5), (5, 0), (4, 6), (6, 7), (7, 8), (8, 9), (9, 5)]
def bicyclopentyl(): return 10, [(0, 1), (1, 2), (2, 3), (3, 4), (4, 0), (5, 6), (6, 7), (7, 8), (8, 9), (9, 5), (0, 5)]
def spirodecane(): return 10, [(0, 1), (1, 2), (2, 3), (3, 4), (4, 0), (0, 5), (5, 6), (6, 7), (7, 8), (8, 9), (9, 0)]


def wl_twins_mixture(rng):
    """several components of equal size, two of them non-isomorphic but indistinguishable by colour refinement
    (decalin / bicyclopentyl: every atom sees the same neighbour-degree pattern round by round), plus others; atoms of the
    components interleaved in a random order"""
    comps = [decalin(), bicyclopentyl()]
    if rng.random() < .8:
        comps.append(spirodecane())
    if rng.random() < .3:
        comps.append(rng.choice([decalin(), bicyclopentyl()]))
    rng.shuffle(comps)
    zs, edges = [], []
    for n, e in comps:
        off = len(zs)
        zs += [6] * n
        edges += [(u + off, v + off) for u, v in e]
    am = AM(zs, edges, {}, {}, "wl-twins")
    p = list(range(len(zs)))
    rng.shuffle(p)                                 # interleave the components' atoms
    am = apply_perm(am, p) if rng.random() < .7 else am
    am.family = "wl-twins"
    return am


def hypercoordinate(rng):
    """centres with 13..20 neighbours (metallocene / cluster-like): two or three centres of one element whose neighbour
    lists differ only in their low-ranking tail (fewer or lighter ligands), optionally joined through a bridge."""
    centre = rng.choice([92, 26, 57, 40, 82])
    heavy = rng.choice([17, 9, 6, 35])
    light = [z for z in (1, 3, 5, 6, 8, 9) if z < heavy]
    k_heavy = rng.randint(12, 15)
    zs, edges = [], []
    centres = []
    tails = rng.sample([[], [light[0]], [light[0]] * rng.randint(2, 4), [light[-1]] * rng.randint(1, 3), [light[0], light[-1]]], rng.choice([2, 3]))
    for tail in tails:
        c = len(zs); zs.append(centre); centres.append(c)
        for z in [heavy] * k_heavy + tail:
            zs.append(z); edges.append((c, len(zs) - 1))
    if rng.random() < .5:       # one molecule: bridge the centres through an oxygen each
        for a, b in zip(centres, centres[1:]):
            zs.append(8); edges += [(a, len(zs) - 1), (b, len(zs) - 1)]
    mass = {centres[0]: 238} if centre == 92 and rng.random() < .3 else {}
    return AM(zs, edges, mass, {}, "hypercoordinate")


def octahedron(): return 6, [(i, j) for i in range(6) for j in range(i + 1, 6) if j != i + 3]


def centred_cage(rng):
    """a symmetric cage or ring with one further atom bonded to every cage atom (interstitial / capping atom, wheel);
    no other ligands, so that one atom is bonded to all others while the compound is neither a star nor complete"""
    name, (n, e) = rng.choice([("octahedron", octahedron()), ("cube", cube()), ("prism3", prism(3)), ("prism4", prism(4)), ("prism5", prism(5)),
                               ("ring5", cycle(5)), ("ring6", cycle(6)), ("ring7", cycle(7)), ("ring8", cycle(8)), ("petersen", petersen()),
                               ("K33", kbip(3, 3)), ("path5", path(5)), ("ladder3", ladder(3))])
    metal = rng.choice([44, 26, 27, 5, 6, 79])
    zs = [metal] * n
    if rng.random() < .3:
        for i in range(0, n, 2):
            zs[i] = rng.choice([28, 7])
    edges = list(e)
    hub = len(zs); zs.append(rng.choice([6, 7, 5, 1, 8]))
    edges += [(hub, i) for i in range(n)]
    mass = {hub: 13} if zs[hub] == 6 and rng.random() < .2 else {}
    return AM(zs, edges, mass, {}, "centred-cage:" + name)


def perhalo_chain(rng):
    """hydrogen-poor chains and rings of 100-130 skeleton atoms, every one carrying two halogens (PTFE-like): more than a hundred
    atoms of one element with several bonds each, so that the tuples of the string pair small with three-digit numbers in many ways"""
    n = rng.choice([110, 111, 118, 119, 126, 127, rng.randint(100, 130)])
    skel, hal = rng.choice([(6, 9), (6, 17), (14, 17)])
    ring = rng.random() < .3
    zs = [skel] * n
    edges = [(i, i + 1) for i in range(n - 1)] + ([(n - 1, 0)] if ring else [])
    for i in range(n):
        for _ in range(2 if ring or 0 < i < n - 1 else 3):
            zs.append(hal); edges.append((i, len(zs) - 1))
    return AM(zs, edges, {}, {}, "perhalo-chain")


def tree_like(rng, n):
    zs = [rng.choice([6, 6, 6, 7, 8]) for _ in range(n)]
    edges = [(rng.randrange(i), i) for i in range(1, n)]
    for i in range(n):
        pass
    return AM(zs, edges, {}, {}, "tree")


def organic(rng, heavy=8):
    """heavy-atom tree + ring closures, hydrogens filled to a valence: looks like the corpus."""
    val = {6: 4, 7: 3, 8: 2, 16: 2, 17: 1, 9: 1}
    zs = [rng.choice([6, 6, 6, 6, 7, 8, 16, 17]) for _ in range(heavy)]
    deg = [0] * heavy
    edges = []
    for i in range(1, heavy):
        cands = [j for j in range(i) if deg[j] < val[zs[j]] - (0 if zs[j] in (17, 9) else 0)]
        cands = [j for j in cands if deg[j] < val[zs[j]]]
        if not cands or deg[i] >= val[zs[i]]:
            continue
        j = rng.choice(cands)
        edges.append((j, i)); deg[i] += 1; deg[j] += 1
    for _ in range(rng.randint(0, 2)):
        a, b = rng.randrange(heavy), rng.randrange(heavy)
        if a != b and (min(a, b), max(a, b)) not in [tuple(sorted(e)) for e in edges] and deg[a] < val[zs[a]] and deg[b] < val[zs[b]]:
            edges.append((a, b)); deg[a] += 1; deg[b] += 1
    mass = {}
    for i in range(heavy):
        for _ in range(val[zs[i]] - deg[i]):
            if rng.random() < .8:
                zs.append(1); edges.append((i, len(zs) - 1))
                if rng.random() < .08:
                    mass[len(zs) - 1] = rng.choice([2, 3])
    return AM(zs, edges, mass, {}, "organic")


def element_order_traps(rng):
    """symbol order vs atomic-number order; counts >= 10; H without C."""
    sets = [[89, 47, 13], [17, 6, 55, 27, 112, 96, 98], [1, 8], [1, 2, 72, 80], [6, 1, 89, 118], [35, 5, 56, 4, 107, 83, 97],
            [6], [1], [9, 26, 100, 87], list(range(1, 119))]
    zs = list(rng.choice(sets))
    if len(zs) < 50:
        zs = zs + [rng.choice(zs) for _ in range(rng.choice([0, 3, 9, 12]))]
    rng.shuffle(zs)
    n = len(zs)
    edges = [(i, j) for i in range(n) for j in range(i + 1, n) if rng.random() < min(.2, 3.0 / n)]
    mass = {i: rng.choice([2, 13, 250]) for i in range(n) if rng.random() < .1}
    return AM(zs, edges, mass, {}, "elements")


def deep(rng, n):
    kind = rng.choice(["path", "comb", "ladder", "ring1"])
    if kind == "path":
        k, e = path(n)
    elif kind == "comb":
        k, e = comb(max(2, n // 2))
    elif kind == "ladder":
        k, e = ladder(max(2, n // 2))
    else:
        k, e = cycle(max(3, n))
    zs = [6] * k
    if kind == "ring1":
        zs[0] = 7
    return AM(zs, e, {}, {}, "deep:" + kind)


def exhaustive_small(nmax, palette=(6, 7), labels=(None, 13)):
    """All labelled graphs on n <= nmax vertices x colourings from the palette x at most one isotope label."""
    for n in range(1, nmax + 1):
        pairs = list(itertools.combinations(range(n), 2))
        # n >= 5: one element only (1024 graphs x 6 label positions); below: every colouring from the palette
        pal = palette if n <= 4 else palette[:1]
        for zs in itertools.product(pal, repeat=n):
            for k in range(2 ** len(pairs)):
                edges = [pairs[i] for i in range(len(pairs)) if k >> i & 1]
                for mi in [None] + list(range(n)):
                    yield AM(zs, edges, {mi: 13} if mi is not None else {}, {}, "exhaustive")


def cfi_files(limit=6):
    out = []
    for f in sorted(glob.glob(os.path.join(os.environ.get("TUCAN_REPO", "/repo"), "tests/cfi_rigid_benchmark_graphs/*.col")))[:limit]:
        n = 0; edges = []
        for line in open(f):
            t = line.split()
            if t and t[0] == "p":
                n = int(t[2])
            elif t and t[0] == "e":
                edges.append((int(t[1]) - 1, int(t[2]) - 1))
        out.append(AM([6] * n, edges, {}, {}, "cfi:" + os.path.basename(f)))
    return out


def corpus_molfiles():
    repo = os.environ.get("TUCAN_REPO", "/repo")
    return sorted(glob.glob(os.path.join(repo, "tests/molfiles/*/*.mol")) + glob.glob(os.path.join(repo, "tests/molfiles/*.mol")))


def standard_stream(rng, tier):
    """The shared molecule stream of the molecule-level checks."""
    quick = tier == "quick"
    for am in skeleton_cases(rng, per=2 if quick else 8):
        yield am
    for _ in range(120 if quick else 1500):
        yield random_mol(rng, 10 if quick else 24)
    for _ in range(20 if quick else 200):
        yield multi_component(rng)
    for _ in range(30 if quick else 300):
        yield organic(rng, rng.randint(2, 8 if quick else 20))
    for _ in range(20 if quick else 150):
        yield element_order_traps(rng)
    for _ in range(10 if quick else 60):
        yield deep(rng, rng.randint(3, 30 if quick else 120))
    for _ in range(10 if quick else 60):
        yield tree_like(rng, rng.randint(2, 25 if quick else 80))
    for _ in range(12 if quick else 100):
        yield cage_salt(rng)
    for _ in range(6 if quick else 40):
        yield wl_twins_mixture(rng)
    for _ in range(6 if quick else 40):
        yield hypercoordinate(rng)
    for _ in range(10 if quick else 60):
        yield centred_cage(rng)
    for _ in range(3 if quick else 14):
        yield perhalo_chain(rng)
