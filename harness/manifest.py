"""Writes /verif/MANIFEST.json from props.SPECS (kept in one place so it never drifts)."""
import json, os, sys
sys.path.insert(0, os.path.dirname(os.path.abspath(__file__)))
import props
from common import VERIF

PENDING = {}
ALL = ["C%02d" % i for i in range(1, 17)]

def main():
    checks = []
    for pid in ALL:
        if pid not in props.SPECS or 'claim' not in props.SPECS[pid]:
            continue
        s = props.SPECS[pid]
        checks.append({
            "property_id": pid,
            "quick_cmd": "./check %s --tier quick" % pid,
            "thorough_cmd": "./check %s --tier thorough" % pid,
            "evidence_file": "evidence/%s.json" % pid,
            "replay_cmd_template": "./check %s --replay {path}" % pid,
            "engine": "coq-model+correspondence",
            "level_claimed": {"category": s["level"], "text": s["claim"], "design_ref": s.get("design_ref", "DESIGN.md section 4")},
            "level_note": s["note"],
            "technique": s.get("technique", "machine-checked proof in Coq about a hand-written executable model + differential correspondence of the extracted model against the implementation + implementation-only falsifier"),
        })
    na = [{"property_id": pid, "reason": props.NOT_CLAIMED.get(pid, "check not built yet in this round (work in progress); see DESIGN.md section 9")}
          for pid in ALL if pid not in props.SPECS or 'claim' not in props.SPECS[pid]]
    man = {
        "version": 1,
        "setup_cmd": "./check --setup",
        "hooks": {"guard": "TUCAN_VERIF", "enable": "none needed: the checks observe the public API of /repo's working tree; the guard is reserved and unused",
                  "baseline_off_cmd": "cd /repo && /venv/bin/python -m pytest -ra -q -p no:cacheprovider --timeout=900 --continue-on-collection-errors",
                  "source_commits": [], "add_only": True},
        "engines": [{"name": "coq-model+correspondence", "path": "coq/, ocaml/driver.ml, harness/",
                     "serves_properties": [c["property_id"] for c in checks],
                     "kind_free_text": "Coq 8.16 development (Model/, Proofs/, Props/) + tables and decisions regenerated from /repo (harness/gen_tables.py, gen_logic.py, gen_antlr.py, gen_antlr_lexer.py) + extracted OCaml model run against the Python implementation"}],
        "checks": checks,
        "not_applicable": na,
        "notes": "Every check regenerates coq/gen/*.v from /repo, runs make (full .vo), re-checks Props/<id>.v with Print Assumptions, runs the correspondence components and the falsifier. See DESIGN.md.",
    }
    json.dump(man, open(os.path.join(VERIF, "MANIFEST.json"), "w"), indent=1)
    print("MANIFEST.json: %d checks, %d not claimed" % (len(checks), len(na)))

if __name__ == "__main__":
    main()
