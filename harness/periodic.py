"""The periodic table, written down independently of the library (symbol of atomic number 1..118)."""
SYMBOLS = ("H He Li Be B C N O F Ne Na Mg Al Si P S Cl Ar K Ca Sc Ti V Cr Mn Fe Co Ni Cu Zn Ga Ge As Se Br Kr Rb Sr Y Zr Nb Mo Tc Ru Rh Pd Ag Cd "
           "In Sn Sb Te I Xe Cs Ba La Ce Pr Nd Pm Sm Eu Gd Tb Dy Ho Er Tm Yb Lu Hf Ta W Re Os Ir Pt Au Hg Tl Pb Bi Po At Rn Fr Ra Ac Th Pa U "
           "Np Pu Am Cm Bk Cf Es Fm Md No Lr Rf Db Sg Bh Hs Mt Ds Rg Cn Nh Fl Mc Lv Ts Og").split()
assert len(SYMBOLS) == 118
SYM = {z + 1: s for z, s in enumerate(SYMBOLS)}
ZOF = {s: z for z, s in SYM.items()}
