#!/bin/bash
# cross_matrix4.sh [glob]: seeded changes (default: round 4) x every check (quick tier), each change in private copies of /repo and /verif
# (harness/run_seeded_copy.sh). Writes /verif/.build/matrix4.txt: "<seeded> <check> <PASS|FAIL> <verdict line>"
cd /verif
OUT=/verif/.build/matrix4.txt; : > $OUT
one() {
  d=$1
  harness/run_seeded_copy.sh /verif/$d C01 C02 C03 C04 C05 C06 C07 C08 C09 C10 C11 C12 C13 C14 C15 C16 2>&1 | awk -v m=$(basename $d) '
    /^--- /{p=$2; v=""} /^VIOLATION/{v=$0} /^(PASS|FAIL)/{print m, p, substr($0,1,4), v; v=""}' >> /verif/.build/matrix4.txt
}
export -f one
ls -d ${1:-seeded/C*-4} | xargs -P 4 -I{} bash -c 'one {}'
echo done >> $OUT
