"""C14 (determinism), C15 (completion on every size/shape), C16 (permutation helper):
falsifiers on the implementation alone and the correspondences K9, K10, K11 with the extracted model.

c16(run, model)  falsifier: permute_molecule(g, seed) is a faithful relabelled copy (bijection found through a
                 tracer attribute, every node attribute dict and every edge data dict carried, no edge gained or
                 lost, node order == sorted labels, argument untouched, same seed -> same result, edge set changed
                 when >= 2 bonds and not complete).
                 K9: the stream of `random.shuffle(list(g.nodes))` results after `random.seed(seed)` is replayed in
                 the harness and handed to the model command `permute`; result, number of retries and the position
                 of the global random stream after the call are compared.
c15(run, model)  static: call graph of the library source (Python ast, simple name resolution), any function
                 reachable from the public pipeline entry points that is (mutually) recursive is reported in
                 run.broken.  falsifier: the real pipeline graph -> canonicalize -> serialize -> parse (-> again) on
                 big instances in fresh worker processes (spawn; pristine recursion limit).
                 K11: on moderate instances the model's classes / serialize / rounds are compared with the
                 implementation (rounds = number of calls of partition_molecule_by_attribute(., "partition"),
                 counted by a wrapper monkeypatched in the harness process only).
c14(run, model)  falsifier: one fixed mixed workload W (read molfile, canonicalize+serialize, parse, rejected
                 strings, malformed molfiles, write molfile body, permutation helper) is executed in fresh
                 subprocesses under several PYTHONHASHSEED values x call orders (incl. rejected inputs first on a
                 cold ANTLR cache) and from 8 concurrent threads; every result (JSON incl. iteration orders) must
                 equal the reference run.  K10: the reference results of canonicalize+serialize / parse / reject
                 operations are compared with the model's single value.  (permute_molecule calls are part of W as
                 a perturbation of the history; their own results count in sequential runs only: the helper uses the
                 process-global random generator and is not thread-safe -- a note, outside C14's operation list.)

Non-trivial cases (run.nontrivial):
  C16: distinct (molecule, seed) pairs where the molecule has >= 3 atoms and >= 2 bonds.
  C15: distinct (family, n) instances with >= 100 refinement rounds or >= 1000 atoms.
  C14: distinct (operation, configuration) pairs with configuration != the reference configuration
       (configuration = (PYTHONHASHSEED, call order, thread-run id)).

All randomness comes from run.sub_rng(tag); worker processes get explicit seeds / explicit orders.
"""
import ast, concurrent.futures as cf, glob, json, multiprocessing, os, random, subprocess, sys, tempfile, time, traceback

HARNESS = os.path.dirname(os.path.abspath(__file__))
if HARNESS not in sys.path:
    sys.path.insert(0, HARNESS)
import networkx as nx
import common, gens, impl, mol_checks
from common import enc_mol, enc_pairs, dec_mol, hx, unhx
from gens import AM
from impl import TRACER

MAX_HITS = 25          # per property: more hits than this are only counted


def _norm_edges(pairs):
    return sorted(tuple(sorted(e)) for e in pairs)


def _graph_json(g):
    return {"nodes": [[a, dict(d)] for a, d in g.nodes(data=True)], "edges": [[u, v, dict(d)] for u, v, d in g.edges(data=True)]}


def _hit(run, prop, what, case, extra=None):
    run.count("hits:" + prop)
    if sum(1 for h in run.falsifier_hits if h["property"] == prop) < MAX_HITS:
        run.falsifier_hits.append({"property": prop, "what": what, "case": case, "extra": extra})


def _diff(run, comp, what, case, extra=None):
    d = run.comp(comp)["diffs"]
    if len(d) < 50:
        d.append({"what": what, "case": case, "extra": extra})
    else:
        run.count("diffs_not_listed:" + comp)


# =====================================================================================================
# A.  C16 + K9
# =====================================================================================================
def shuffle_stream(g, seed, k):
    """What `random.shuffle(list(g.nodes))` returns on k successive calls after random.seed(seed).
    The global generator is put back afterwards."""
    st = random.getstate()
    try:
        random.seed(seed)
        out = []
        for _ in range(k):
            l = list(g.nodes)
            random.shuffle(l)
            out.append(l)
        return out
    finally:
        random.setstate(st)


def _state_after(g, seed, k):
    st = random.getstate()
    try:
        random.seed(seed)
        for _ in range(k):
            l = list(g.nodes)
            random.shuffle(l)
        return random.getstate()
    finally:
        random.setstate(st)


def _decorate(g, salt=0):
    """extra node attributes / edge data of several types, tracer = label in the argument graph"""
    for i, a in enumerate(g.nodes):
        g.nodes[a][TRACER] = a
        if (i + salt) % 2 == 0:
            g.nodes[a]["note"] = ["x", a, {"k": None}]
        if (i + salt) % 3 == 0:
            g.nodes[a]["name"] = "atom-%d" % a
    for k, (u, v) in enumerate(g.edges):
        g.edges[u, v]["bond_type"] = 1 + (k + salt) % 3
        if k % 2 == 0:
            g.edges[u, v]["stereo"] = ("up", k)
    return g


def _relabelled(g, labels):
    """same graph, nodes renamed in iteration order to `labels` (any distinct non-negative ints, any order)"""
    h = nx.relabel_nodes(g, dict(zip(list(g.nodes), labels)), copy=True)
    for a in h.nodes:
        h.nodes[a][TRACER] = a
    return h


def c16_cases(run, rng):
    """yields (family, graph); every node carries TRACER == its own label"""
    quick = run.tier == "quick"
    for am in gens.standard_stream(rng, run.tier):
        yield am.family.split(":")[0], mol_checks.build(am)
    for n in range(2, 7):
        k, e = gens.complete(n)
        yield "complete", _decorate(impl.graph_of(AM([6] * k, e)), n)
    small = [("edges0", AM([6], [])), ("edges0", AM([6, 8], [])), ("edges0", AM([6, 1, 1], [])), ("edges0", AM([6] * 6, [])),
             ("edges1", AM([6, 8], [(0, 1)])), ("edges1", AM([6, 8, 1], [(0, 1)])), ("edges1", AM([6] * 5, [(3, 1)])),
             ("edges2", AM([1, 8, 1], [(0, 1), (1, 2)])), ("edges2", AM([6] * 4, [(0, 1), (2, 3)])),
             ("edges2", AM([6] * 3, [(0, 1), (1, 2)])), ("edges2", AM([6, 7, 8, 9, 1], [(4, 0), (2, 1)])),
             ("edges3", AM([6] * 3, [(0, 1), (1, 2), (0, 2)])), ("edges3", AM([6] * 4, [(0, 1), (1, 2), (2, 3)]))]
    for fam, am in small:
        yield fam, _decorate(impl.graph_of(am), len(am.zs))
    # several components, every one a complete graph (mixtures of diatomics, P4 + HCl ...): >= 2 bonds and not complete,
    # so the returned edge set must differ; a shuffle that keeps the edge set has probability 1/3 .. 1/15 here -> many seeds
    K = gens.complete
    for parts in ([2, 2], [2, 2, 1], [2, 2, 2], [3, 2], [4, 2], [3, 3], [2, 1, 2, 1]):
        zs, edges = [], []
        for k in parts:
            off = len(zs)
            zs += [11] if k == 1 else [17, 1] if k == 2 else [15] * k
            edges += [(u + off, v + off) for u, v in K(k)[1]]
        yield "complete-components", _decorate(impl.graph_of(AM(zs, edges)), len(zs))
    # very small, symmetric, not complete: a shuffle keeps the edge set with probability 1/3 (H-O-H, the four-ring) or 1/4 (BF3); a run of
    # n + 1 such shuffles has probability 1/81 .. 1/1024 -> hundreds of seeds (the retry loop has to go on however long the run is)
    for am in (AM([1, 8, 1], [(0, 1), (1, 2)]), AM([6, 6, 6, 6], [(0, 1), (1, 2), (2, 3), (3, 0)]), AM([5, 9, 9, 9], [(0, 1), (0, 2), (0, 3)])):
        yield "tiny-symmetric", _decorate(impl.graph_of(am), len(am.zs))
    for k in ([2, 3, 4, 5, 8, 30] if quick else [2, 3, 4, 5, 6, 7, 8, 12, 30, 100]):
        n, e = gens.star(k)
        yield "star", _decorate(impl.graph_of(AM([6] + [1] * k, e)), k)
    # non-contiguous labels, also listed in non-sorted order
    for labels, am in [([5, 9, 100], AM([6, 8, 1], [(0, 1), (1, 2)])), ([100, 5, 9], AM([6, 8, 1], [(0, 1), (1, 2)])),
                       ([7, 3, 1000000, 0], AM([6, 6, 7, 8], [(0, 1), (1, 2), (2, 3)])),
                       ([11, 22, 33, 44, 55], AM([6] * 5, gens.cycle(5)[1])), ([9, 5], AM([6, 6], [(0, 1)])),
                       ([40, 30, 20, 10, 0, 50], AM([6, 6, 6, 1, 1, 8], [(0, 1), (1, 2), (0, 3), (2, 4), (1, 5)]))]:
        yield "noncontiguous", _relabelled(_decorate(impl.graph_of(am), 1), labels)
    for _ in range(6 if quick else 60):
        am = gens.random_mol(rng, 9)
        labels = rng.sample(range(0, 200), am.n())
        yield "noncontiguous", _relabelled(mol_checks.build(am), labels)
    # partitions / invariant codes as left by canonicalization (model carries `part`)
    for _ in range(6 if quick else 40):
        am = gens.organic(rng, rng.randint(2, 7))
        c = impl.canonicalize_molecule(mol_checks.build(am))
        for a in c.nodes:
            c.nodes[a][TRACER] = a
        yield "canonical-input", c
    g = _decorate(impl.graph_of(AM([6, 6, 8, 1], [(0, 1), (1, 2), (2, 3)])), 2)
    g.graph["name"] = "graph-level attribute"
    yield "graph-attr", g


def _snap_result(r):
    return ([(a, dict(d)) for a, d in r.nodes(data=True)], [(u, v, dict(d)) for u, v, d in r.edges(data=True)],
            {a: list(r.adj[a]) for a in r})


PERMUTE_SECONDS = 30
_timeouts = [0]


class _TimedOut(BaseException):
    pass


class _watchdog:
    """raise _TimedOut in the main thread after `seconds` (no effect in other threads)"""
    def __init__(self, seconds):
        self.seconds = seconds
        self.active = False

    def __enter__(self):
        import signal, threading
        if threading.current_thread() is threading.main_thread():
            def fire(signum, frame):
                raise _TimedOut()
            self.old = signal.signal(signal.SIGALRM, fire)
            signal.setitimer(signal.ITIMER_REAL, self.seconds)
            self.active = True
        return self

    def __exit__(self, *exc):
        import signal
        if self.active:
            signal.setitimer(signal.ITIMER_REAL, 0)
            signal.signal(signal.SIGALRM, self.old)
        return False


def perm_one(run, model, fam, g, seed, feed=64):
    import tucan.graph_utils as GU
    n, ne = g.number_of_nodes(), g.number_of_edges()
    case = {"family": fam, "seed": seed, "graph": _graph_json(g)}
    run.evaluations += 1
    gkey = common.digest(case["graph"])
    if n >= 3 and ne >= 2:
        run.nontrivial.add((gkey, seed))
    before = mol_checks.snapshot(g)
    saved_state = random.getstate()
    try:
        # ---- pristine call (under a watchdog: the helper's retry loop has no bound of its own)
        if _timeouts[0] >= 3:
            run.count("c16:not called after 3 calls that did not return")
            return
        try:
            with _watchdog(PERMUTE_SECONDS):
                r = GU.permute_molecule(g, seed)
        except _TimedOut:
            _timeouts[0] += 1
            _hit(run, "C16", "permute_molecule did not return within %d s" % PERMUTE_SECONDS, case, {})
            return
        except Exception as e:
            _hit(run, "C16", "permute_molecule raised " + type(e).__name__, case, {"msg": str(e)[:200]})
            return
        state1 = random.getstate()
        # ---- second call, same seed, other history of the global generator, attempts counted
        random.seed("something else")
        random.random()
        attempts = [0]
        orig = GU._permute_molecule

        def counting(m, *a, **kw):      # private helper: tolerate a changed signature, only count the calls
            attempts[0] += 1
            return orig(m, *a, **kw)
        GU._permute_molecule = counting
        try:
            r2 = GU.permute_molecule(g, seed)
        finally:
            GU._permute_molecule = orig
    finally:
        random.setstate(saved_state)
    extra_impl = attempts[0] - 1
    run.count("c16:retries=%s" % (extra_impl if extra_impl < 4 else ">=4"))

    # ---------------- falsifier (implementation alone)
    labels = list(g.nodes)
    if mol_checks.snapshot(g) != before:
        _hit(run, "C16", "permute_molecule changed its argument", case)
    if sorted(r.nodes) != sorted(labels) or r.number_of_nodes() != n:
        _hit(run, "C16", "label set of the result differs from the argument's", case, {"result": sorted(r.nodes)})
    if list(r.nodes) != sorted(r.nodes):
        _hit(run, "C16", "result does not list its atoms in label order", case, {"order": list(r.nodes)})
    f = {}
    bad_tracer = False
    for a, d in r.nodes(data=True):
        o = d.get(TRACER, None)
        if o is None or o in f or o not in g.nodes:
            bad_tracer = True
            break
        f[o] = a
    if bad_tracer or len(f) != n:
        _hit(run, "C16", "result is not the argument under a bijection of the labels (tracer attribute lost or duplicated)", case,
             {"result": _graph_json(r)})
    else:
        for o in labels:
            if dict(r.nodes[f[o]]) != before[1][o]:
                _hit(run, "C16", "attributes of an atom were not carried along", case,
                     {"orig": o, "new": f[o], "got": str(dict(r.nodes[f[o]])), "exp": str(before[1][o])})
                break
        key = lambda u, v, d: (tuple(sorted((u, v))), json.dumps(d, sort_keys=True, default=str))
        exp = sorted(key(f[u], f[v], d) for u, v, d in before[2])
        got = sorted(key(u, v, d) for u, v, d in r.edges(data=True))
        if exp != got:
            _hit(run, "C16", "bonds or bond data differ from the image of the argument's bonds", case, {"exp": exp[:20], "got": got[:20]})
        if any(f[o] != o for o in labels):
            run.count("c16:non-identity")
        else:
            run.count("c16:identity")
    if _snap_result(r) != _snap_result(r2):
        _hit(run, "C16", "same seed, two calls, different results", case)
    complete = ne == n * (n - 1) // 2
    if ne >= 2 and not complete:
        run.count("c16:enforced")
        if _norm_edges(r.edges) == _norm_edges(g.edges):
            _hit(run, "C16", "edge set unchanged although the molecule has >= 2 bonds and is not complete", case)
    else:
        run.count("c16:not-enforced")
    if any(r.nodes[a] is g.nodes[b] for a in r for b in g):
        run.notes.append("permute_molecule result shares attribute dict objects with its argument")
    if g.graph and dict(r.graph) != dict(g.graph):
        run.notes.append("graph-level attributes (G.graph) are not carried by permute_molecule (outside the property text: atoms and bonds only)")

    # ---------------- K9
    comp = run.comp("K9")
    comp["cases"] += 1
    shuffles = shuffle_stream(g, seed, feed)
    atoms_m, bonds_m = impl.to_model(g)
    q = "permute %d %s %s" % (len(shuffles), " ".join("%d %s" % (len(l), " ".join(map(str, l))) for l in shuffles), enc_mol(atoms_m, bonds_m))
    ans = model.q(q)
    if ans == "none":
        if extra_impl < feed:
            _diff(run, "K9", "model exhausted the shuffle stream, implementation needed fewer retries", case, {"impl_extra": extra_impl})
        else:
            run.count("c16:stream-exhausted")
    elif not ans.startswith("ok "):
        _diff(run, "K9", "model error", case, {"model": ans[:200]})
    else:
        toks = ans.split()
        extra_m = int(toks[1])
        ma, mb, _ = dec_mol(toks[2:])
        ra, rb = impl.to_model(r)
        if ma != ra:
            _diff(run, "K9", "atoms of the permuted molecule differ (order, label, Z, mass, rad, partition)", case,
                  {"model": ma[:12], "impl": ra[:12]})
        if _norm_edges(mb) != _norm_edges(rb):
            _diff(run, "K9", "bonds of the permuted molecule differ", case, {"model": _norm_edges(mb)[:20], "impl": _norm_edges(rb)[:20]})
        if extra_m != extra_impl:
            _diff(run, "K9", "number of retries differs", case, {"model": extra_m, "impl": extra_impl})
    if state1 != _state_after(g, seed, attempts[0]):
        _diff(run, "K9", "global random stream after the call is not at 'seed + one shuffle of the label list per attempt'", case,
              {"attempts": attempts[0]})
    return r


def c16(run, model):
    rng = run.sub_rng("c16")
    quick = run.tier == "quick"
    nseeds = 2 if quick else 4
    idx = 0
    for fam, g in c16_cases(run, rng):
        idx += 1
        special = fam not in ("random", "skeleton", "organic", "multi", "elements", "deep", "tree") or idx % 5 == 0
        seeds = [rng.random() for _ in range(nseeds)] + ([0.0, 0.999999] if special else [])
        if fam == "tiny-symmetric":
            k = {3: 400, 4: 1200}[g.number_of_nodes()] // (1 if quick else 1) * (1 if quick else 4)
            seeds += [rng.random() for _ in range(k // 2)] + [j / (k // 2) for j in range(1, k // 2)]
        if fam == "complete-components":
            seeds += [rng.random() for _ in range(14 if quick else 40)] + [k / 64 for k in range(1, 8)]
        run.count("c16:family:" + fam)
        n = g.number_of_nodes()
        run.count("c16:atoms:%s" % ("1" if n == 1 else "2" if n == 2 else "3-6" if n <= 6 else "7-20" if n <= 20 else ">20"))
        for s in seeds:
            r = perm_one(run, model, fam, g, s)
            if r is not None and len(run.samples) < 6 and n >= 4 and g.number_of_edges() >= 3 and not any(x["family"] == fam for x in run.samples):
                run.samples.append({"family": fam, "seed": s, "labels": list(g.nodes)[:12], "edges": [list(e) for e in list(g.edges)[:12]],
                                    "permuted_edges": [list(e) for e in list(r.edges)[:12]]})
    run.notes.append("permute_molecule reseeds the global `random` generator (random.seed(seed)) by design; not counted as a violation")


# =====================================================================================================
# B.  C15 + K11
# =====================================================================================================
GENERATED = ("tucanParser.py", "tucanLexer.py", "tucanListener.py")
ROOTS = ("canonicalize_molecule", "serialize_molecule", "graph_from_tucan", "graph_from_molfile_text", "graph_to_molfile")


def static_recursion(repo=None):
    """Call graph by simple name resolution over the hand-written library source.
    Returns (findings, info): findings = sorted list of 'file:qualname' of reachable functions lying on a call cycle."""
    repo = repo or common.REPO
    files = sorted(glob.glob(os.path.join(repo, "tucan", "*.py")) + glob.glob(os.path.join(repo, "tucan", "io", "*.py"))
                   + [os.path.join(repo, "tucan", "parser", "parser.py")])
    files = [f for f in files if os.path.basename(f) not in GENERATED]
    defs = {}       # qual -> ast node
    byname = {}     # simple name -> [qual]
    classes = {}    # class name -> [qual of methods]
    bases = {}      # class name -> [base names]
    for f in files:
        tree = ast.parse(open(f).read(), f)
        rel = os.path.relpath(f, repo)
        for node in tree.body:
            if isinstance(node, (ast.FunctionDef, ast.AsyncFunctionDef)):
                q = "%s:%s" % (rel, node.name)
                defs[q] = node
                byname.setdefault(node.name, []).append(q)
            elif isinstance(node, ast.ClassDef):
                bases[node.name] = [b.id if isinstance(b, ast.Name) else getattr(b, "attr", "") for b in node.bases]
                for sub in node.body:
                    if isinstance(sub, (ast.FunctionDef, ast.AsyncFunctionDef)):
                        q = "%s:%s.%s" % (rel, node.name, sub.name)
                        defs[q] = sub
                        byname.setdefault(sub.name, []).append(q)
                        classes.setdefault(node.name, []).append(q)

    def class_methods(c, seen=()):
        out = list(classes.get(c, []))
        for b in bases.get(c, []):
            if b in classes and b not in seen:
                out += class_methods(b, seen + (c,))
        return out
    sub_of = {}
    for c, bs in bases.items():
        for b in bs:
            sub_of.setdefault(b, []).append(c)
    edges = {}
    for q, node in defs.items():
        out = set()
        # names bound inside the function (parameters, assignment / loop / comprehension / with / except targets, nested defs):
        # a local variable that happens to share its name with a library function is not a reference to that function
        local = {a.arg for a in ast.walk(node.args) if isinstance(a, ast.arg)}
        local |= {x.id for x in ast.walk(node) if isinstance(x, ast.Name) and isinstance(x.ctx, (ast.Store, ast.Del))}
        local |= {x.name for x in ast.walk(node) if isinstance(x, (ast.FunctionDef, ast.AsyncFunctionDef, ast.ClassDef)) and x is not node}
        local |= {x.name for x in ast.walk(node) if isinstance(x, ast.ExceptHandler) and x.name}
        declared_global = {n for x in ast.walk(node) if isinstance(x, (ast.Global, ast.Nonlocal)) for n in x.names}
        local -= declared_global
        for x in ast.walk(node):
            names = []
            if isinstance(x, ast.Name) and x.id in local:
                continue
            if isinstance(x, ast.Call) and isinstance(x.func, ast.Name) and x.func.id in local:
                continue
            if isinstance(x, ast.Call):
                if isinstance(x.func, ast.Name):
                    names.append(x.func.id)
                elif isinstance(x.func, ast.Attribute):
                    names.append(x.func.attr)
            elif isinstance(x, ast.Name) and isinstance(x.ctx, ast.Load):
                names.append(x.id)          # function objects passed as callbacks
            for nm in names:
                out.update(byname.get(nm, []))
                if nm in classes or nm in bases:     # instantiation: every method may be called back (listeners)
                    out.update(class_methods(nm))
                    for s in sub_of.get(nm, []):
                        out.update(class_methods(s))
        edges[q] = out
    roots = [q for r in ROOTS for q in byname.get(r, [])]
    reach = set()
    stack = list(roots)
    while stack:
        q = stack.pop()
        if q in reach:
            continue
        reach.add(q)
        stack.extend(edges[q])
    findings = []
    for q in sorted(reach):
        seen = set()
        stack = list(edges[q])
        while stack:
            x = stack.pop()
            if x == q:
                findings.append(q)
                break
            if x in seen:
                continue
            seen.add(x)
            stack.extend(edges[x])
    missing = [r for r in ROOTS if r not in byname]
    return findings, {"files": len(files), "functions": len(defs), "reachable": len(reach), "roots_missing": missing,
                      "reachable_names": sorted(reach)}


# ---------------------------------------------------------------- instance families (pure python: used in workers)
def fam_instance(family, n):
    """(zs, edges) of the instance; n is the size parameter of the family (see FAMILY_DOC).
    A family name ending in "+lab" is the same skeleton with isotope / radical labels (fam_labels)."""
    family = family.split("+")[0]
    if family == "chain":
        k, e = gens.path(n)
        return [6] * k, e
    if family == "ring1":
        k, e = gens.cycle(n)
        zs = [6] * k
        zs[0] = 7
        return zs, e
    if family == "comb":
        k, e = gens.comb(max(2, n // 2))
        return [6] * k, e
    if family == "ladder":
        k, e = gens.ladder(max(2, n // 2))
        return [6] * k, e
    if family == "peptide":
        return peptide(max(1, (n - 3) // 10))
    if family == "isolated":
        return [(6, 1, 8)[i % 3] for i in range(n)], []
    if family == "frag3":            # n copies of H-O-H
        zs, e = [], []
        for c in range(n):
            zs += [1, 8, 1]
            e += [(3 * c, 3 * c + 1), (3 * c + 1, 3 * c + 2)]
        return zs, e
    if family == "complete":
        k, e = gens.complete(n)
        return [6] * k, e
    if family == "star":             # n leaves
        k, e = gens.star(n)
        return [6] + [1] * n, e
    if family == "bintree":          # depth n
        k = 2 ** (n + 1) - 1
        return [6] * k, [((i - 1) // 2, i) for i in range(1, k)]
    if family == "periodic":         # chain of n atoms running through all 118 elements again and again
        k, e = gens.path(n)
        return [(i % 118) + 1 for i in range(k)], e
    raise ValueError(family)


FAMILY_DOC = {"chain": "n carbons in a row", "ring1": "n-ring, one N", "comb": "n atoms: spine n/2 with one tooth each",
              "ladder": "n atoms: open ladder of n/2 rungs", "peptide": "about n atoms: poly-alanine H-[NH-CH(CH3)-C(=O)]k-OH with all H",
              "isolated": "n atoms C/H/O without bonds", "frag3": "n copies of H-O-H", "complete": "K_n of carbons",
              "star": "C with n H leaves", "bintree": "complete binary tree of depth n",
              "periodic": "chain of n atoms whose elements run through H..Og cyclically"}


def peptide(units):
    zs, e = [], []

    def atom(z, to=None):
        zs.append(z)
        if to is not None:
            e.append((to, len(zs) - 1))
        return len(zs) - 1
    prev_c = None
    for u in range(units):
        n_ = atom(7, prev_c)
        atom(1, n_)
        if u == 0:
            atom(1, n_)
        ca = atom(6, n_)
        atom(1, ca)
        cb = atom(6, ca)
        for _ in range(3):
            atom(1, cb)
        c = atom(6, ca)
        atom(8, c)
        prev_c = c
    o = atom(8, prev_c)
    atom(1, o)
    return zs, e


def fam_labels(family, n_atoms):
    """(mass, rad) label dictionaries for a "+lab" family: every 3rd atom an isotope, every 7th a radical"""
    if not family.endswith("+lab"):
        return {}, {}
    return ({i: 2 + (i % 5) for i in range(0, n_atoms, 3)}, {i: 2 for i in range(0, n_atoms, 7)})


def _atoms_bonds(zs, edges, family=""):
    atoms = {i: {"element_symbol": impl.SYM[z], "atomic_number": z, "partition": 0} for i, z in enumerate(zs)}
    mass, rad = fam_labels(family, len(zs))
    for i, v in mass.items():
        atoms[i]["mass"] = v
    for i, v in rad.items():
        atoms[i]["rad"] = v
    return atoms, {tuple(e): {} for e in edges}


def c15_worker(spec):
    """Runs in a fresh (spawned) process: the unpatched pipeline with the interpreter's default limits."""
    family, n, regen, molfile = spec["family"], spec["n"], spec.get("regen", False), spec.get("molfile", False)
    out = {"family": family, "n": n, "recursionlimit": sys.getrecursionlimit(), "pid": os.getpid(), "t": {}}
    stage = "import"
    t0 = time.time()
    try:
        import tucan
        from tucan.graph_utils import graph_from_molecule
        from tucan.canonicalization import canonicalize_molecule
        from tucan.serialization import serialize_molecule
        from tucan.io import graph_from_tucan, graph_from_molfile_text, graph_to_molfile
        import tucan.canonicalization as C
        stage = "build"
        zs, edges = fam_instance(family, n)
        out["atoms"], out["bonds"] = len(zs), len(edges)
        g = graph_from_molecule(*_atoms_bonds(zs, edges, family))
        for stage, fn in (("canonicalize", lambda: canonicalize_molecule(g)), ("serialize", lambda: serialize_molecule(c)),
                          ("parse", lambda: graph_from_tucan(s))):
            t = time.time()
            res = fn()
            out["t"][stage] = round(time.time() - t, 2)
            if stage == "canonicalize":
                c = res
            elif stage == "serialize":
                s = res
            else:
                g2 = res
        out["tucan_len"] = len(s)
        out["tucan_head"] = s[:60]
        out["parsed_counts_ok"] = (g2.number_of_nodes(), g2.number_of_edges()) == (len(zs), len(edges))
        if regen:
            calls = [0]
            orig = C.partition_molecule_by_attribute

            def counting(m, attribute):
                if attribute == "partition":
                    calls[0] += 1
                return orig(m, attribute)
            stage = "canonicalize(2nd generation)"
            t = time.time()
            C.partition_molecule_by_attribute = counting      # transparent; only after the unpatched first generation
            try:
                c2 = canonicalize_molecule(g2)
            finally:
                C.partition_molecule_by_attribute = orig
            stage = "serialize(2nd generation)"
            s2 = serialize_molecule(c2)
            out["t"]["second"] = round(time.time() - t, 2)
            out["rounds"] = calls[0]
            out["fixed_point"] = s2 == s
        if molfile:
            stage = "write molfile"
            t = time.time()
            text = graph_to_molfile(g)
            stage = "read molfile"
            g3 = graph_from_molfile_text(text)
            out["t"]["molfile"] = round(time.time() - t, 2)
            out["molfile_counts_ok"] = (g3.number_of_nodes(), g3.number_of_edges()) == (len(zs), len(edges))
    except Exception as e:   # RecursionError, AssertionError, IndexError, KeyError, MemoryError, ...
        out["exc"] = type(e).__name__
        out["stage"] = stage
        out["msg"] = str(e)[:200]
        out["tb"] = traceback.format_exc()[-1500:]
    out["wall"] = round(time.time() - t0, 2)
    return out


def _run_pool(specs, workers=8):
    """[(spec, result-dict | {'died': msg})] -- one spawned worker process per task."""
    ctx = multiprocessing.get_context("spawn")
    os.environ.setdefault("PYTHONPATH", common.REPO)
    results = {}
    try:
        with cf.ProcessPoolExecutor(max_workers=workers, mp_context=ctx, max_tasks_per_child=1) as ex:
            futs = {ex.submit(c15_worker, sp): i for i, sp in enumerate(specs)}
            for fu in cf.as_completed(futs):
                i = futs[fu]
                try:
                    results[i] = fu.result()
                except Exception as e:
                    results[i] = None
    except Exception:
        pass
    for i, sp in enumerate(specs):
        if results.get(i) is None:         # pool broke (a worker died): run this one alone to find the culprit
            try:
                with cf.ProcessPoolExecutor(max_workers=1, mp_context=ctx) as ex:
                    results[i] = ex.submit(c15_worker, sp).result()
            except Exception as e:
                results[i] = {"family": sp["family"], "n": sp["n"], "died": "%s: %s" % (type(e).__name__, str(e)[:200])}
    return [(sp, results[i]) for i, sp in enumerate(specs)]


def _big_instances(tier, rng):
    quick = tier == "quick"
    L = [("chain", 1100, True), ("chain", 2200, False), ("ring1", 2400, False), ("comb", 1200, True), ("ladder", 1200, True),
         ("peptide", 1203, True), ("isolated", 3000, True), ("frag3", 1000, True), ("complete", 40, True), ("star", 500, True),
         ("bintree", 9, True), ("periodic", 1180, True), ("periodic+lab", 236, True),
         # the same shapes carrying isotope / radical labels on some atoms
         ("isolated+lab", 1500, True), ("isolated+lab", 1, True), ("isolated+lab", 2, True), ("frag3+lab", 300, True), ("chain+lab", 600, True),
         ("star+lab", 200, True), ("complete+lab", 20, True), ("ring1+lab", 300, True),
         # sizes drawn per seed
         ("chain", rng.randint(1000, 2100), False), ("ring1", rng.randint(1000, 2000), False), ("peptide", rng.randint(600, 2400), False),
         ("comb", rng.randint(1300, 2400), False), ("ladder", rng.randint(1300, 2400), False)]
    if not quick:
        L += [("chain", 3000, False), ("chain", 4500, False), ("chain", 6000, False), ("ring1", 6000, False), ("ring1", 4001, False),
              ("comb", 6000, False), ("ladder", 6000, False), ("peptide", 6003, False), ("peptide", 3003, True), ("isolated", 6000, True),
              ("frag3", 2000, True), ("complete", 90, True), ("star", 3000, True), ("bintree", 11, True), ("bintree", 12, False),
              ("chain", 1999, True), ("chain", 2001, True), ("chain", 2100, True)]
    # big first: better packing of the pool
    cost = lambda f, n: (n * n if f in ("chain", "ring1") else n * n / 4 if f in ("comb", "ladder", "peptide") else n)
    L.sort(key=lambda x: -cost(x[0], x[1]))
    return [{"family": f, "n": n, "regen": r, "molfile": True} for f, n, r in L]


def _moderate_instances(tier, rng):
    quick = tier == "quick"
    L = [("chain", 1), ("chain", 2), ("chain", 3), ("chain", 30), ("chain", 64), ("chain", 100), ("ring1", 3), ("ring1", 31), ("ring1", 64),
         ("ring1", 100), ("comb", 40), ("comb", 80), ("ladder", 40), ("ladder", 80), ("peptide", 43), ("peptide", 83),
         ("isolated", 1), ("isolated", 300), ("frag3", 100), ("complete", 40), ("complete", 2), ("star", 200), ("bintree", 5), ("bintree", 6),
         ("chain", rng.randint(20, 70)), ("ring1", rng.randint(20, 70)), ("comb", rng.randint(20, 70)), ("ladder", rng.randint(20, 70)),
         ("peptide", rng.randint(13, 70)),
         ("periodic", 118), ("periodic", 119), ("periodic", 300), ("periodic+lab", 118),
         ("isolated+lab", 1), ("isolated+lab", 30), ("chain+lab", 40), ("frag3+lab", 10), ("star+lab", 12), ("complete+lab", 7), ("comb+lab", 30)]
    if not quick:
        L += [("chain", 140), ("ring1", 140), ("comb", 120), ("ladder", 120), ("peptide", 123), ("bintree", 7), ("complete", 60),
              ("isolated", 400), ("frag3", 133), ("star", 399)] + [(f, rng.randint(10, 90)) for f in ("chain", "ring1", "comb", "ladder", "peptide") for _ in range(3)]
    return L


SMALL = {"chain": (20, 40), "ring1": (20, 40), "comb": (20, 40), "ladder": (20, 40), "peptide": (23, 43), "isolated": (5, 10),
         "frag3": (2, 4), "complete": (5, 8), "star": (5, 10), "bintree": (3, 4), "periodic": (20, 40)}


def _model_rounds(model, family, n):
    zs, e = fam_instance(family, n)
    g = impl.graph_of(AM(zs, e))
    ans = model.q("rounds " + enc_mol(*impl.to_model(g)))
    return (int(ans[3:]) if ans.startswith("ok ") else None), len(zs)


def rounds_law(model, family):
    """Predictor n_atoms -> refinement rounds: linear through the model's values on two small instances."""
    (r1, a1), (r2, a2) = _model_rounds(model, family, SMALL[family][0]), _model_rounds(model, family, SMALL[family][1])
    if r1 is None or r2 is None:
        return lambda atoms: 0
    if family == "bintree":      # linear in the depth
        d1, d2 = SMALL[family]
        return lambda atoms: round(r1 + (r2 - r1) * ((atoms + 1).bit_length() - 2 - d1) / (d2 - d1))
    return lambda atoms: round(r1 + (r2 - r1) * (atoms - a1) / (a2 - a1))


def k11_one(run, model, family, n):
    """pipeline in the harness process + model comparison (classes, serialize, rounds)"""
    import tucan.canonicalization as C
    case = {"family": family, "n": n}
    zs, edges = fam_instance(family, n)
    _m, _r = fam_labels(family, len(zs))
    am = AM(zs, edges, _m, _r, family="k11:" + family)
    g = impl.graph_of(am, lambda i: {TRACER: i})
    calls = [0]
    orig = C.partition_molecule_by_attribute

    def counting(m, attribute):
        if attribute == "partition":
            calls[0] += 1
        return orig(m, attribute)
    run.evaluations += 1
    C.partition_molecule_by_attribute = counting
    try:
        try:
            c = impl.canonicalize_molecule(g)
        finally:
            C.partition_molecule_by_attribute = orig
        s = impl.serialize_molecule(c)
        g2 = impl.graph_from_tucan(s)
        s2 = impl.tucan_of(g2)
        # the same objects once more: a graph that has been canonicalized / serialized before is still a molecule
        s_again = impl.serialize_molecule(c)
        s_recanon = impl.serialize_molecule(impl.canonicalize_molecule(c))
    except Exception as e:
        _hit(run, "C15", type(e).__name__, case, {"msg": str(e)[:200], "where": "harness process"})
        return None
    if s_again != s:
        _hit(run, "C14", "serializing the same canonical graph a second time gives another string", case, {"first": s[:200], "again": s_again[:200]})
    if s_recanon != s:
        _hit(run, "C01", "canonicalizing the canonical graph again (another numbering of the same molecule) gives another string", case,
             {"first": s[:200], "recanonicalized": s_recanon[:200]})
    if s2 != s:
        _hit(run, "C03", "string is not a fixed point of parse/canonicalize/serialize", case, {"a": s[:200], "b": s2[:200]})
    comp = run.comp("K11")
    comp["cases"] += 1
    atoms_m, bonds_m = impl.to_model(g)
    enc = enc_mol(atoms_m, bonds_m)
    P = {d[TRACER]: d["partition"] for _, d in c.nodes(data=True)}
    ans = model.q("classes " + enc)
    exp = "ok " + " ".join(str(P[a]) for a, *_ in atoms_m)
    if ans != exp:
        _diff(run, "K11", "partition classes differ", case, {"model": ans[:300], "impl": exp[:300]})
    ca, cb = impl.to_model(c)
    ans = model.q("serialize " + enc_mol(ca, cb))
    if ans != "ok " + hx(s):
        _diff(run, "K11", "serialization differs on the implementation's canonical graph", case,
              {"model": (unhx(ans[3:]) if ans.startswith("ok ") else ans)[:300], "impl": s[:300]})
    ans = model.q("rounds " + enc)
    if ans != "ok %d" % calls[0]:
        _diff(run, "K11", "number of refinement rounds differs", case, {"model": ans, "impl": calls[0]})
    if len(zs) <= 45:      # the model's whole pipeline under the implementation's labelling (re-runs refinement: small only)
        lam = {d[TRACER]: a for a, d in c.nodes(data=True)}
        ans = model.q("tucan " + enc_pairs(sorted(lam.items())) + " " + enc)
        if ans != "ok " + hx(s):
            _diff(run, "K11", "model pipeline (classes, relabel, serialize) differs", case,
                  {"model": (unhx(ans[3:]) if ans.startswith("ok ") else ans)[:300], "impl": s[:300]})
    return calls[0]


def c15(run, model):
    rng = run.sub_rng("c15")
    # ---- (1) static
    try:
        findings, info = static_recursion()
        run.count("c15:static:functions", info["functions"])
        run.count("c15:static:reachable", info["reachable"])
        if info["roots_missing"]:
            run.broken.append("static: entry points not found in the source: %s" % info["roots_missing"])
        for q in findings:
            run.broken.append("static: %s is recursive (reachable from the pipeline entry points)" % q)
        run.notes.append("static recursion check: %d functions in %d files, %d reachable from %s, %d recursive; ANTLR runtime and generated "
                         "parser excluded (recursive descent, depth bounded by the grammar: tuple*/node_attribute* are loops)"
                         % (info["functions"], info["files"], info["reachable"], "/".join(ROOTS), len(findings)))
    except Exception as e:
        run.broken.append("static: call graph analysis crashed: %s" % type(e).__name__)
    # ---- (2) big instances in worker processes, K11 in this process meanwhile
    specs = _big_instances(run.tier, rng)
    laws = {f: rounds_law(model, f) for f in SMALL}
    for f in SMALL:
        run.count("c15:model-law:%s:rounds(1000 atoms)=%d" % (f, laws[f](1000)))
    ex = cf.ThreadPoolExecutor(max_workers=1)
    t0 = time.time()
    big = ex.submit(_run_pool, specs)
    seen = set()
    for family, n in _moderate_instances(run.tier, rng):
        if (family, n) in seen:
            continue
        seen.add((family, n))
        r = k11_one(run, model, family, n)
        atoms = len(fam_instance(family, n)[0])
        run.count("c15:moderate:" + family)
        if r is not None and (r >= 100 or atoms >= 1000):
            run.nontrivial.add((family, n))
    t_k11 = time.time() - t0
    results = big.result()
    ex.shutdown()
    run.count("c15:seconds:k11", round(t_k11))
    run.count("c15:seconds:big", round(time.time() - t0))
    for sp, res in results:
        case = {"family": sp["family"], "n": sp["n"]}
        run.evaluations += 1
        run.count("c15:big:" + sp["family"])
        if "died" in res:
            _hit(run, "C15", "worker process died", case, res)
            continue
        if "exc" in res:
            if res["stage"] in ("write molfile", "read molfile"):
                run.notes.append("molfile round trip of %s n=%d raised %s (outside C15's statement)" % (sp["family"], sp["n"], res["exc"]))
            elif res["stage"] in ("import", "build"):
                run.broken.append("c15 worker failed before the pipeline: %s at %s: %s" % (res["exc"], res["stage"], res["msg"]))
            else:
                _hit(run, "C15", res["exc"], case, {k: res.get(k) for k in ("stage", "msg", "tb", "atoms", "recursionlimit")})
            if res["stage"] not in ("write molfile", "read molfile"):
                continue
        if res.get("parsed_counts_ok") is False:
            _hit(run, "C03", "parsed graph has other atom/bond counts", case, {"tucan_head": res.get("tucan_head")})
        if res.get("fixed_point") is False:
            _hit(run, "C03", "string is not a fixed point of parse/canonicalize/serialize", case, {"tucan_head": res.get("tucan_head")})
        if res.get("molfile_counts_ok") is False:
            run.notes.append("molfile round trip of %s n=%d changed the atom/bond counts" % (sp["family"], sp["n"]))
        atoms = res.get("atoms", 0)
        pred = laws[sp["family"].split("+")[0]](atoms)
        rounds = res.get("rounds")
        if rounds is not None and abs(rounds - pred) > max(3, rounds // 100):     # the law only selects sizes; tiny counts (trees) are not linear
            run.notes.append("rounds of %s (%d atoms): measured %d, linear law from the model's small instances %d" % (sp["family"], atoms, rounds, pred))
        r = rounds if rounds is not None else pred
        run.count("c15:rounds:%s" % ("<10" if r < 10 else "10-99" if r < 100 else "100-999" if r < 1000 else ">=1000"))
        run.count("c15:atoms:%s" % ("<1000" if atoms < 1000 else "1000-2999" if atoms < 3000 else ">=3000"))
        if r >= 100 or atoms >= 1000:
            run.nontrivial.add((sp["family"], sp["n"]))
        if len(run.samples) < 6 and r >= 100:
            run.samples.append({"family": sp["family"], "n": sp["n"], "atoms": atoms, "rounds": r, "rounds_measured": rounds is not None,
                                "seconds": res.get("t"), "tucan_head": res.get("tucan_head"), "tucan_len": res.get("tucan_len")})
    run.c15_results = results


# =====================================================================================================
# C.  C14 + K10
# =====================================================================================================
WORKER_SRC = r'''
import json, sys, threading, time, hashlib
def main():
    wl = json.load(open(sys.argv[1]))
    mode = json.loads(sys.argv[2])
    if mode.get("switch"):
        sys.setswitchinterval(mode["switch"])
    import networkx as nx
    from tucan.graph_utils import graph_from_molecule, permute_molecule
    from tucan.canonicalization import canonicalize_molecule
    from tucan.serialization import serialize_molecule
    from tucan.io import graph_from_tucan, TucanParserException, graph_from_molfile_text, graph_to_molfile
    from tucan.io.molfile_reader import graph_from_file
    import os, shutil, tempfile
    scratch_dir = tempfile.mkdtemp(prefix="verif-c14-files-")
    from tucan.element_attributes import ELEMENT_ATTRS
    SYM = {v["atomic_number"]: k for k, v in ELEMENT_ATTRS.items()}
    ops = {o["id"]: o for o in wl["ops"]}

    def gj(g):
        return {"nodes": [[a, sorted((k, v) for k, v in d.items())] for a, d in g.nodes(data=True)],
                "edges": [[u, v, sorted(d.items())] for u, v, d in g.edges(data=True)],
                "adj": [[a, list(g.adj[a])] for a in g]}

    def build(d):
        atoms = {}
        for i, z in enumerate(d["zs"]):
            a = {"element_symbol": SYM[z], "atomic_number": z, "partition": 0}
            if str(i) in d["mass"]:
                a["mass"] = d["mass"][str(i)]
            if str(i) in d["rad"]:
                a["rad"] = d["rad"][str(i)]
            a["_verif_orig"] = i
            atoms[i] = a
        return graph_from_molecule(atoms, {tuple(e): {} for e in d["edges"]})

    def body(text):
        lines = text.split("\n")
        return lines[:1] + lines[2:]

    def do(op):
        k = op["kind"]
        try:
            if k in ("read", "badmol"):
                return gj(graph_from_molfile_text(op["text"]))
            if k == "readfile":
                # one scratch path per thread, overwritten for every file operation (a conversion loop's scratch file)
                path = os.path.join(scratch_dir, "scratch-%d.mol" % threading.get_ident())
                with open(path, "w") as fh:
                    fh.write(op["text"])
                return gj(graph_from_file(path))
            if k == "canon":
                c = canonicalize_molecule(build(op["mol"]))
                return {"tucan": serialize_molecule(c), "canon": gj(c)}
            if k in ("parse", "reject"):
                try:
                    return gj(graph_from_tucan(op["text"]))
                except TucanParserException as e:
                    return {"reject": str(e)}
            if k == "write":
                g = graph_from_molfile_text(op["text"]) if "text" in op else build(op["mol"])
                return {"body": body(graph_to_molfile(g, calc_coordinates=bool(op.get("calc"))))}
            if k == "perm":
                return gj(permute_molecule(build(op["mol"]), op["seed"]))
            return {"exc": "unknown kind"}
        except Exception as e:
            return {"exc": type(e).__name__, "msg": str(e)[:300]}

    def run_order(order):
        return [[i, json.dumps(do(ops[i]), sort_keys=True)] for i in order]

    t0 = time.time()
    out = {}
    if mode.get("thread_orders"):
        from concurrent.futures import ThreadPoolExecutor
        T = len(mode["thread_orders"])
        bar = threading.Barrier(T)
        def runner(order):
            bar.wait()
            return run_order(order)
        with ThreadPoolExecutor(T) as ex:
            futs = [ex.submit(runner, o) for o in mode["thread_orders"]]
            out["threads"] = [f.result() for f in futs]
    else:
        out["results"] = run_order(mode["order"])
    shutil.rmtree(scratch_dir, ignore_errors=True)
    out["t"] = round(time.time() - t0, 2)
    out["hashseed"] = __import__("os").environ.get("PYTHONHASHSEED")
    out["hash_of_a"] = hash("a")
    json.dump(out, sys.stdout)
main()
'''

HAND_TUCAN = ["CH4/(1-5)(2-5)(3-5)(5-4)(4-5)/(5:mass=13)", "C2H6O/(1-7)(2-7)(3-7)(4-8)(5-8)(6-9)(7-8)(8-9)", "C2/(1-2)(1-2)", "C/", "H2O/(1-3)(2-3)",
              "C2H6O/(8-9)(7-8)(6-9)(5-8)(4-8)(3-7)(2-7)(1-7)/(9:rad=2,mass=17)(1:mass=2)", "ClH/(1-2)", "Og/", "C6H6/(1-7)(2-8)(3-9)(4-10)(5-11)(6-12)(7-8)(7-9)(8-10)(9-11)(10-12)(11-12)",
              "AcAgAl/(1-2)(2-3)", "H2/(1-2)/(1:mass=2)(2:mass=3)", "C10/", "CH3/(1-4)(2-4)(3-4)/(4:rad=2)"]
HAND_BAD = ["", "Xx", "C2/(1-1)", "CH4/(1-9)", "C/(1:mass=1,mass=2)", "C2/(1-2", "HC/", "c", "C 2", "C2/(1-2)/(1:foo=1)", "C0/", "C01/", "C", "/",
            "C2/(1-2)(", "C2/(0-1)", "C2/(1-2)/(3:mass=13)", "C2//", "H2C/", "C2/(1-2)/(1:mass=)", "CH4/(1-5)(2-5)\n", " CH4/", "C2/(1-2)/(1:rad=2,rad=3)",
            "C2/(1,2)", "C2/(1-2)/(1:mass=13", "CC/", "ClC/", "C2/(1-2)/()", "C1/"]


def _mutate(s, rng):
    k = rng.randrange(5)
    if not s:
        return "("
    i = rng.randrange(len(s))
    if k == 0:
        return s[:i] + s[i + 1:]
    if k == 1:
        return s[:i] + rng.choice("()-/:,=x0 Z") + s[i:]
    if k == 2:
        return s[:i]
    if k == 3:
        return s[:i] + rng.choice("()-/:,=") + s[i + 1:]
    return s + rng.choice(["(", "/", "(1-1)", "(1:mass=1,mass=1)", "(99999-1)", "-"])


def _bad_molfiles(v3, v2, rng):
    l3 = v3.split("\n")
    l2 = v2.split("\n")
    out = [("two lines only", "\n".join(l3[:2])), ("empty", ""), ("version V4000", v3.replace("V3000", "V4000", 1)),
           ("counts keyword broken", v3.replace("COUNTS", "COUNT", 1)), ("END ATOM missing", v3.replace("END ATOM", "END ATOMS", 1)),
           ("BEGIN BOND missing", v3.replace("BEGIN BOND", "BEGIN BONDS", 1)),
           ("v3000 cut in the atom block", "\n".join(l3[:9])),
           ("v3000 unknown element", "\n".join(l3[:7] + [l3[7].replace(" " + l3[7].split()[3] + " ", " Qq ", 1)] + l3[8:])),
           ("v3000 coordinate not a number", "\n".join(l3[:7] + [l3[7].replace(l3[7].split()[4], "abc", 1)] + l3[8:])),
           ("v2000 without M  END", v2.replace("M  END", "M  EN")), ("v2000 cut", "\n".join(l2[:6])),
           ("v2000 bond to atom 999", "\n".join(l2[:4 + int(l2[3][0:3])] + ["999  1  1  0"] + l2[5 + int(l2[3][0:3]):])),
           ("v3000 dash continuation into non V30 line", "\n".join(l3[:7] + [l3[7] + "-", "garbage"] + l3[8:]))]
    return out


def build_workload(run, model):
    """~150 operations; deterministic in (prop, tier, seed)."""
    rng = run.sub_rng("c14-workload")
    ops = []

    def add(kind, **kw):
        op = dict(kind=kind, id="%s%03d" % (kind[:2], len(ops)), **kw)
        ops.append(op)
        return op
    corpus = gens.corpus_molfiles()
    v2 = sorted(glob.glob(os.path.join(common.REPO, "tests", "molfiles_v2000", "*", "*.mol")))
    chosen = rng.sample(corpus, min(24, len(corpus)))
    texts = {f: open(f).read() for f in chosen + v2}
    for f in chosen + v2:
        add("read", text=texts[f], src=os.path.relpath(f, common.REPO))
    # the same scratch path rewritten with another molecule before every read from a file
    for f in chosen[:4] + v2[:1]:
        add("readfile", text=texts[f], src=os.path.relpath(f, common.REPO))
    # rendered molfiles: small ionic / isotopic molecules whose atoms share charge codes and D/T symbols, so that
    # state leaking from one read into a later one (or into another thread) changes a result
    import text_checks as TC
    ion_sets = [[("D", 1, 0, 0), ("N", 1, 0, 0), ("H", 0, 0, 0)], [("Na", 1, 0, 0), ("D", -1, 0, 0), ("Cl", -1, 0, 0)],
                [("T", 0, 2, 0), ("C", 0, 2, 0), ("O", -1, 0, 0)], [("N", 1, 0, 0), ("H", 0, 0, 0), ("H", 0, 0, 0), ("H", 0, 0, 0), ("H", 0, 0, 0)],
                [("Cl", -1, 0, 0), ("Na", 1, 0, 0)], [("C", 0, 2, 13), ("H", 0, 0, 0), ("D", 1, 0, 0)], [("O", -2, 0, 0), ("T", 1, 0, 0), ("D", 1, 0, 0)],
                [("Fe", 3, 0, 0), ("Cl", -1, 0, 0), ("Cl", -1, 0, 0), ("D", -1, 0, 0)]]
    for k, atoms_ in enumerate(ion_sets):
        atoms = [[sym, chg, rad, mass, "%d.0000" % i, "0.0000", "0.0000"] for i, (sym, chg, rad, mass) in enumerate(atoms_)]
        bonds = [[1, 0, j] for j in range(1, len(atoms))] if k % 2 == 0 else []
        mm = TC.MM(atoms, bonds, [], "c14:ions")
        for mode in ("codes", "lines"):
            try:
                add("read", text=TC.render2000(mm, rng, charge_mode=mode), src="rendered-v2000:%d:%s" % (k, mode))
            except Exception as e:
                run.notes.append("c14 workload: render2000 failed (%s)" % type(e).__name__)
        add("read", text=TC.render3000(mm, rng), src="rendered-v3000:%d" % k)
    # V2000: a D / T symbol in the atom block and an M  ISO entry naming the same atom with another mass (the ISO entry wins)
    mm = TC.MM([["O", 0, 0, 0, "0.0000", "0.0000", "0.0000"], ["D", 0, 0, 0, "1.0000", "0.0000", "0.0000"], ["T", 0, 0, 0, "0.0000", "1.0000", "0.0000"]],
               [[1, 0, 1], [1, 0, 2]], [], "c14:DT+ISO")
    base = TC.render2000(mm, rng, charge_mode="lines")
    for iso in ("M  ISO  2   2   3   3   2", "M  ISO  1   2   1", "M  ISO  2   3  14   1  18"):
        add("read", text=base.replace("M  END", iso + "\nM  END"), src="rendered-v2000:DT+ISO")
    # molecules
    stream = [am for am in gens.standard_stream(rng, "quick") if am.n() <= 40]
    mols = rng.sample(stream, 34)
    zs = list(range(1, 119))
    rng.shuffle(zs)
    mols.append(AM(zs, [(i, i + 1) for i in range(0, 117, 3)] + [(0, 5), (7, 60)], {3: 13, 50: 200}, {9: 2}, "elements:all"))
    for name in ("petersen", "K33", "shrikhande", "2xK4", "Q4"):
        n, e = gens.SKELETONS[name]
        mols.append(AM([6] * n, e, {0: 13} if name != "Q4" else {}, {}, "skeleton:" + name))
    # atoms that carry an isotope mass and a radical at once (two attributes in one block of the string), always present
    mols.append(AM([6, 1, 1, 1], [(0, 1), (0, 2), (0, 3)], {0: 13}, {0: 2}, "c14:mass+rad"))
    mols.append(AM([8, 8, 6, 1], [(0, 2), (1, 2), (2, 3)], {0: 17, 1: 18, 3: 2}, {0: 2, 1: 3}, "c14:mass+rad"))
    mols.append(AM([7, 6, 6, 17, 35], [(0, 1), (1, 2), (2, 3), (2, 4)], {0: 15, 3: 37}, {0: 2, 3: 1, 4: 2}, "c14:mass+rad"))
    for am in mols:
        add("canon", mol=am.to_json())
    # strings: the implementation's own output in this process + hand-written; classified by the model
    cands = [impl.tucan_of(impl.graph_of(am)) for am in rng.sample(mols, 20)] + HAND_TUCAN
    bad = list(HAND_BAD) + [_mutate(rng.choice(cands), rng) for _ in range(30)]
    good_n = bad_n = 0
    for s in cands + bad:
        try:
            s.encode("latin-1")
        except UnicodeEncodeError:
            continue
        ans = model.q("parse " + hx(s))
        if ans.startswith("ok ") and good_n < 34:
            add("parse", text=s)
            good_n += 1
        elif ans.startswith("err ") and bad_n < 30:
            add("reject", text=s, model=ans)
            run.count("c14:reject:" + ans[4:])
            bad_n += 1
    v3_text = texts[chosen[0]]
    for what, t in _bad_molfiles(v3_text, texts[v2[1]], rng):
        add("badmol", text=t, what=what)
    for f in chosen[:10] + v2[:2]:
        add("write", text=texts[f], src=os.path.relpath(f, common.REPO))
    for am in mols[:5]:
        add("write", mol=am.to_json())
    for am in mols[5:7]:
        add("write", mol=am.to_json(), calc=1)
    for am in mols[7:12]:
        add("perm", mol=am.to_json(), seed=rng.random())
    for o in ops:
        run.count("c14:ops:" + o["kind"])
    return ops


def _spawn_worker(wl_path, mode, hashseed, timeout=1800):
    env = dict(os.environ)
    env["PYTHONHASHSEED"] = str(hashseed)
    env["PYTHONPATH"] = common.REPO
    p = subprocess.run([common.PY, "-c", WORKER_SRC, wl_path, json.dumps(mode)], env=env, stdout=subprocess.PIPE, stderr=subprocess.PIPE,
                       text=True, timeout=timeout)
    if p.returncode != 0:
        return {"crash": p.returncode, "stderr": p.stderr[-1500:]}
    try:
        return json.loads(p.stdout)
    except Exception as e:
        return {"crash": "unparsable output", "stderr": p.stdout[-500:] + p.stderr[-1000:]}


def _orders(ops, rng, tier):
    ids = [o["id"] for o in ops]
    failing = [o["id"] for o in ops if o["kind"] in ("reject", "badmol")]
    rest = [i for i in ids if i not in failing]
    out = [("listed", list(ids)), ("reversed", list(reversed(ids)))]
    f, r = list(failing), list(rest)
    rng.shuffle(f)
    rng.shuffle(r)
    out.append(("rejects-first-shuffled", f + r))
    if tier != "quick":
        s = list(ids)
        rng.shuffle(s)
        out.append(("shuffled", s))
        inter = []
        for k, i in enumerate(r):
            inter.append(f[k % len(f)])
            inter.append(i)
        out.append(("reject-before-every-call", inter))
        out.append(("twice", list(ids) + list(reversed(ids))))
    return out


def _compare(run, ref, pairs, cfg, opmap, hits):
    """pairs: [[id, result]] of one sequential run or one thread. Appends (op id, cfg, got) to hits."""
    for i, res in pairs:
        run.evaluations += 1
        if cfg["key"] != "reference":
            run.nontrivial.add((i, cfg["key"]))
        if res != ref[i]:
            hits.append((i, cfg, res))


def _first_difference(a, b):
    k = next((j for j in range(min(len(a), len(b))) if a[j] != b[j]), min(len(a), len(b)))
    return {"at": k, "reference": a[max(0, k - 60):k + 80], "got": b[max(0, k - 60):k + 80]}


def c14_same_object(run):
    """C14 on ONE graph object: what an operation returns for a graph must not depend on which other operations were applied to the very
    same object before (a writer call that lays the atoms out, canonicalization, serialization, the permutation helper)."""
    import tucan.graph_utils as GU
    rng = run.sub_rng("c14/same-object")
    made = 0
    for am in gens.standard_stream(rng, "quick"):
        if am.n() > 40 or am.n() < 2:
            continue
        made += 1
        if made > (40 if run.tier == "quick" else 250):
            break
        g = impl.graph_of(am, lambda i: {"x_coord": round(rng.uniform(-9, 9), 4), "y_coord": round(rng.uniform(-9, 9), 4),
                                         "z_coord": round(rng.uniform(-9, 9), 4) if i % 3 else 0.0})
        case = {"molecule": am.to_json()}

        def observe():
            text = impl.graph_to_molfile(g)
            lines = text.split("\n")
            return {"graph_to_molfile (body)": lines[:1] + lines[2:], "canonicalize + serialize": impl.tucan_of(g)}
        pristine = g.copy()
        try:
            before = observe()
        except Exception as e:
            run.notes.append("c14 same-object: observer raised %s on a stream molecule" % type(e).__name__)
            continue
        steps = [("graph_to_molfile(g, calc_coordinates=True)", lambda: impl.graph_to_molfile(g, calc_coordinates=True)),
                 ("canonicalize_molecule(g)", lambda: impl.canonicalize_molecule(g)),
                 ("serialize_molecule(canonicalize_molecule(g))", lambda: impl.serialize_molecule(impl.canonicalize_molecule(g))),
                 ("permute_molecule(g, 0.3)", lambda: GU.permute_molecule(g, 0.3)),
                 ("graph_to_molfile(g)", lambda: impl.graph_to_molfile(g))]
        rng.shuffle(steps)
        saved = random.getstate()
        try:
            for name, fn in steps:
                run.evaluations += 1
                try:
                    fn()
                    after = observe()
                except Exception as e:
                    # history dependent only if the same step succeeds on an untouched copy of the molecule
                    g_used, g = g, pristine.copy()
                    try:
                        fn()
                        observe()
                        fresh_ok = True
                    except Exception:
                        fresh_ok = False
                    g = g_used
                    if fresh_ok:
                        _hit(run, "C14", "an operation raised %s on a graph object that earlier operations had been applied to (%s)" % (type(e).__name__, name), case, {})
                    else:
                        run.count("c14:same-object step raises on a fresh graph too (%s)" % name)
                    break
                changed = [k for k in before if before[k] != after[k]]
                if changed:
                    _hit(run, "C14", "result of %s for one graph object changed after an intermediate %s on the same object" % (changed[0], name), case,
                         {"before": str(before[changed[0]])[:300], "after": str(after[changed[0]])[:300], "sequence": [n for n, _ in steps]})
                    break
        finally:
            random.setstate(saved)
        run.nontrivial.add(("same-object", made))
    run.count("c14:same-object molecules", made)


def c14(run, model):
    rng = run.sub_rng("c14")
    quick = run.tier == "quick"
    c14_same_object(run)
    ops = build_workload(run, model)
    opmap = {o["id"]: o for o in ops}
    tmp = tempfile.NamedTemporaryFile("w", suffix=".json", prefix="verif-c14-", delete=False)
    json.dump({"ops": ops}, tmp)
    tmp.close()
    try:
        orders = _orders(ops, rng, run.tier)
        seeds = [0, 1, 2, 3, 4, 5, 12345, rng.randrange(2 ** 32)] + ([] if quick else [rng.randrange(2 ** 32) for _ in range(8)])
        cfgs = []
        for hs in seeds:
            for oname, order in orders:
                cfgs.append({"hashseed": hs, "order": oname, "threads": 0, "mode": {"order": order}})
        nthr = 3 if quick else 10
        for k in range(nthr):
            torders = []
            for t in range(8):
                o = [x["id"] for x in ops]
                rng.shuffle(o)
                if t % 2 == 0:      # half of the threads hit the cold shared ANTLR cache at the same moment (rejected strings among them)
                    o.sort(key=lambda i: opmap[i]["kind"] not in ("parse", "reject"))
                torders.append(o)
            cfgs.append({"hashseed": seeds[k % len(seeds)] if k else rng.randrange(2 ** 32), "order": "shuffled-per-thread#%d" % k, "threads": 8,
                         "mode": {"thread_orders": torders, "switch": None if k == 0 else [1e-4, 1e-5, 1e-6][k % 3]}})
        for c in cfgs:
            c["key"] = "hs=%s/%s/threads=%d" % (c["hashseed"], c["order"], c["threads"])
        cfgs[0]["key"] = "reference"
        t0 = time.time()
        ref_out = _spawn_worker(tmp.name, cfgs[0]["mode"], cfgs[0]["hashseed"])
        if "crash" in ref_out:
            run.broken.append("c14 reference worker crashed: %s" % json.dumps(ref_out)[:600])
            return
        ref = dict(ref_out["results"])
        run.count("c14:seconds:reference-run", round(ref_out["t"]))
        hashes = {ref_out["hash_of_a"]}
        hits = []
        _compare(run, ref, ref_out["results"], cfgs[0], opmap, hits)
        with cf.ThreadPoolExecutor(max_workers=8) as ex:
            futs = {ex.submit(_spawn_worker, tmp.name, c["mode"], c["hashseed"]): c for c in cfgs[1:]}
            for fu in cf.as_completed(futs):
                c = futs[fu]
                out = fu.result()
                run.count("c14:runs:%s" % ("threads" if c["threads"] else "sequential"))
                if "crash" in out:
                    _hit(run, "C14", "worker process failed", {"op": None, "hashseed": c["hashseed"], "order": c["order"], "threads": c["threads"]}, out)
                    continue
                hashes.add(out["hash_of_a"])
                if c["threads"]:
                    for pairs in out["threads"]:
                        _compare(run, ref, pairs, c, opmap, hits)
                else:
                    _compare(run, ref, out["results"], c, opmap, hits)
        run.count("c14:distinct hash('a') values seen", len(hashes))
        run.count("c14:seconds:exploration", round(time.time() - t0))
        if len(hashes) < 2:
            run.broken.append("c14: PYTHONHASHSEED had no effect in the workers (all runs share one str hash)")
        # The permutation helper is in W as a perturbation of the history (it reseeds the global generator); it is not one of
        # C14's operations. It draws from the process-global `random` between its own seed() and shuffle(), so two threads calling
        # it concurrently can interleave: observed, reported as a note, not as a C14 hit. Sequential runs must still agree (C16).
        racy = [(i, c, res) for i, c, res in hits if c["threads"] and opmap[i]["kind"] == "perm"]
        if racy:
            run.count("c14:permute_molecule results changed by concurrent callers (not a C14 operation)", len(racy))
            run.notes.append("permute_molecule is not thread-safe: it seeds and then draws from the process-global random generator, so concurrent "
                             "callers with other seeds change its result (seen in %d thread results); outside C14's operation list" % len(racy))
            hits = [h for h in hits if h not in racy]
        # ---- hits: re-run the configuration 3 times
        by_cfg = {}
        for i, c, res in hits:
            by_cfg.setdefault(c["key"], (c, []))[1].append((i, res))
        for key, (c, lst) in list(by_cfg.items())[:6]:
            reruns = [_spawn_worker(tmp.name, c["mode"], c["hashseed"]) for _ in range(3)]
            for i, res in lst[:5]:
                rep = 0
                for out in reruns:
                    allp = [p for th in out.get("threads", []) for p in th] + out.get("results", [])
                    if any(pi == i and pr != ref[i] for pi, pr in allp):
                        rep += 1
                op = {k: (v if not isinstance(v, str) else v[:2000]) for k, v in opmap[i].items()}
                _hit(run, "C14", "result of operation %s (%s) differs from the reference run" % (i, opmap[i]["kind"]),
                     {"op": op, "hashseed": c["hashseed"], "order": c["order"], "threads": c["threads"], "switchinterval": c["mode"].get("switch")},
                     {"difference": _first_difference(ref[i], res), "reruns": 3, "reproduced": rep,
                      "order_ids": c["mode"].get("order") or c["mode"].get("thread_orders")})
        if len(hits) > 0:
            run.count("c14:differing (op, config, thread) results", len(hits))
        # ---- K10 on the reference results
        k10(run, model, ops, ref)
        for o in ops:
            if len(run.samples) < 6 and o["kind"] in ("canon", "reject", "write", "badmol", "parse") and not any(s["kind"] == o["kind"] for s in run.samples):
                run.samples.append({"op": o["id"], "kind": o["kind"], "input": str(o.get("text", o.get("mol")))[:200], "result": ref[o["id"]][:200],
                                    "configurations_compared": len(cfgs) - 1})
    finally:
        os.unlink(tmp.name)


def _attrs(pairs):
    return {k: v for k, v in pairs}


def k10(run, model, ops, ref):
    comp = run.comp("K10")
    for o in ops:
        res = json.loads(ref[o["id"]])
        case = {"op": o["id"], "kind": o["kind"], "input": o.get("text", o.get("mol"))}
        if o["kind"] == "canon":
            comp["cases"] += 1
            if "exc" in res:
                _diff(run, "K10", "implementation raised on a molecule", case, res)
                continue
            am = AM.from_json(o["mol"])
            g = impl.graph_of(am, lambda i: {TRACER: i})
            atoms_m, bonds_m = impl.to_model(g)
            nodes = [(a, _attrs(d)) for a, d in res["canon"]["nodes"]]
            P = {d[TRACER]: d["partition"] for a, d in nodes}
            lam = {d[TRACER]: a for a, d in nodes}
            ans = model.q("classes " + enc_mol(atoms_m, bonds_m))
            exp = "ok " + " ".join(str(P[a]) for a, *_ in atoms_m)
            if ans != exp:
                _diff(run, "K10", "partition classes differ", case, {"model": ans, "impl": exp})
            ca = [(a, d["atomic_number"], d.get("mass"), d.get("rad"), d["partition"]) for a, d in nodes]
            cb = [(u, v) for u, v, _ in res["canon"]["edges"]]
            s = res["tucan"]
            ans = model.q("serialize " + enc_mol(ca, cb))
            if ans != "ok " + hx(s):
                _diff(run, "K10", "serialization differs on the implementation's canonical graph", case,
                      {"model": unhx(ans[3:]) if ans.startswith("ok ") else ans, "impl": s})
            ans = model.q("tucan " + enc_pairs(sorted(lam.items())) + " " + enc_mol(atoms_m, bonds_m))
            if ans != "ok " + hx(s):
                _diff(run, "K10", "model pipeline (classes, relabel, serialize) differs", case,
                      {"model": unhx(ans[3:]) if ans.startswith("ok ") else ans, "impl": s})
        elif o["kind"] in ("parse", "reject"):
            comp["cases"] += 1
            ans = model.q("parse " + hx(o["text"]))
            if "reject" in res:
                if not ans.startswith("err "):
                    _diff(run, "K10", "implementation rejects, model accepts", case, {"model": ans[:200], "impl": res["reject"][:200]})
            elif "exc" in res:
                _diff(run, "K10", "implementation raised another exception than TucanParserException", case, {"model": ans[:200], "impl": res})
            elif not ans.startswith("ok "):
                _diff(run, "K10", "implementation accepts, model rejects", case, {"model": ans})
            else:
                ma, mb, _ = dec_mol(ans.split()[1:])
                nodes = sorted((a, _attrs(d)) for a, d in res["nodes"])
                ia = [(a, d["atomic_number"], d.get("mass"), d.get("rad"), d.get("partition")) for a, d in nodes]
                ib = sorted(set(tuple(sorted((u, v))) for u, v, _ in res["edges"]))
                if sorted(ma) != ia or sorted(set(_norm_edges(mb))) != ib:
                    _diff(run, "K10", "parsed graph differs", case, {"model": ans[:300], "impl": str((ia, ib))[:300]})
        elif o["kind"] == "readfile":
            comp["cases"] += 1
            twin = next((x for x in ops if x["kind"] == "read" and x["text"] == o["text"]), None)
            if twin is not None and ref[twin["id"]] != ref[o["id"]]:
                _hit(run, "C14", "graph_from_file on a rewritten scratch path returns another molecule than the text that is in the file "
                     "(result depends on files read earlier in the process)", {"op": {k: (v if not isinstance(v, str) else v[:2000]) for k, v in o.items()}, "hashseed": 0, "order": "listed", "threads": 0},
                     {"difference": _first_difference(ref[twin["id"]], ref[o["id"]])})
        elif o["kind"] == "badmol":
            run.count("c14:badmol:" + (res.get("exc") or "accepted"))


# =====================================================================================================
SPECS = {
    "C16": dict(fn=c16, level="proof", components=["K9"],
                assumptions=["random.shuffle is an oracle: any permutation of the label list; the model is given the stream replayed from random.seed(seed)"],
                rule="molecules of gens.standard_stream (with payload attributes and bond types) + K2..K6, graphs with 0/1/2/3 edges, stars, non-contiguous and "
                     "unsorted labels, canonicalized inputs, several complete components (23 seeds), tiny symmetric molecules (H-O-H 400 seeds, four-ring / BF3 1200 seeds: runs of "
                     "edge-preserving shuffles); every call under a 30 s watchdog; seeds from the rng in [0,1) plus 0.0 and 0.999999. Per (molecule, seed): bijection through a tracer "
                     "attribute, all node/edge data carried, label order, argument snapshot, determinism under another global-random history, changed edge set. "
                     "non-trivial = distinct (molecule, seed) with >= 3 atoms and >= 2 bonds"),
    "C15": dict(fn=c15, level="proof", components=["K11"],
                assumptions=["stack/heap limits are explored, not proved: the sizes run are listed in input_distribution",
                             "ANTLR runtime and generated parser are outside the static recursion check"],
                rule="static AST call-graph recursion check + the real pipeline in fresh spawned worker processes on chains, hetero-rings, combs, ladders, "
                     "poly-alanine, isolated atoms, many fragments, K_n, stars, binary trees, chains through all 118 elements (sizes: quick up to 3000 atoms / 1200 rounds, thorough up to 6000 atoms / "
                     "3000 rounds), K11 on moderate instances (there the canonical graph is also serialized a second time and canonicalized again). non-trivial = distinct (family, n) with >= 100 refinement rounds or >= 1000 atoms"),
    "C14": dict(fn=c14, level="proof", components=["K10"],
                assumptions=["histories and thread schedules are explored, not proved"],
                rule="one mixed workload of ~150 operations run in fresh subprocesses under PYTHONHASHSEED in {0,1,2,12345,random,..} x call orders "
                     "(listed, reversed, rejected inputs first on a cold parser cache, ..) and from 8 concurrent threads (several switch intervals); every result "
                     "(JSON with iteration orders; molfile minus timestamp line) compared with the reference run; plus, in process, writer (both coordinate modes), "
                     "canonicalization, serialization and the permutation helper applied in random order to ONE graph object, the writer's and the pipeline's result for that object compared before and after each step. non-trivial = distinct (operation, configuration) "
                     "with configuration != reference"),
}


def _selftest(which):
    tier = os.environ.get("VERIF_TIER", "quick")
    seed = int(os.environ.get("VERIF_SEED", "0") or 0)
    rc = 0
    for prop, fn in (("C16", c16), ("C15", c15), ("C14", c14)):
        if which and prop not in which:
            continue
        run = common.Run(prop, tier, seed)
        model = common.Model()
        t = time.time()
        try:
            fn(run, model)
        except Exception:
            traceback.print_exc()
            run.broken.append("check crashed")
        finally:
            model.close()
        comps = {k: (v["cases"], len(v["diffs"])) for k, v in run.components.items()}
        print("== %s tier=%s seed=%d: %.1fs evaluations=%d nontrivial=%d hits=%d components(cases,diffs)=%s broken=%s model_calls=%d" % (
            prop, tier, seed, time.time() - t, run.evaluations, len(run.nontrivial), len(run.falsifier_hits), comps, run.broken, model.calls))
        for k in sorted(run.hist):
            print("     %-60s %s" % (k, run.hist[k]))
        for nt in sorted(set(run.notes)):
            print("   note:", nt)
        for h in run.falsifier_hits[:5]:
            print("   HIT:", json.dumps(h, default=str)[:1500])
        for k, v in run.components.items():
            for d in v["diffs"][:5]:
                print("   DIFF %s:" % k, json.dumps(d, default=str)[:1500])
        for s in run.samples[:6]:
            print("   sample:", json.dumps(s, default=str)[:300])
        if prop == "C15":
            for sp, res in getattr(run, "c15_results", []):
                print("   big: %-9s n=%-5d atoms=%-5s rounds=%-5s wall=%-6s t=%s %s" % (sp["family"], sp["n"], res.get("atoms"), res.get("rounds"),
                                                                                     res.get("wall"), res.get("t"), res.get("exc", "")))
        if run.falsifier_hits or run.broken or any(v["diffs"] for v in run.components.values()):
            rc = 1
    return rc


if __name__ == "__main__":
    sys.exit(_selftest(set(a.upper() for a in sys.argv[1:])))


# ---------------------------------------------------------------- replay of recorded hits
def _graph_from_json(j):
    import networkx as nx
    g = nx.Graph()
    for a, d in j["nodes"]:
        d = dict(d)
        if "invariant_code" in d and isinstance(d["invariant_code"], list):
            d["invariant_code"] = tuple(d["invariant_code"])
        g.add_node(a, **d)
    for e in j["edges"]:
        g.add_edge(e[0], e[1], **(e[2] if len(e) > 2 and isinstance(e[2], dict) else {}))
    return g


def replay(run, model, rp):
    """same contract as props.replay, for C14 / C15 / C16 replay files"""
    hit = rp.get("hit") or {}
    prop = rp.get("property")
    case = hit.get("case") or {}
    before = len(run.falsifier_hits)
    if prop == "C15" and "family" in case:
        res = dict(_run_pool([{"family": case["family"], "n": case["n"], "regen": True, "molfile": False}], workers=1)[0][1])
        print(json.dumps({k: res.get(k) for k in ("exc", "stage", "msg", "atoms", "died")}, default=str)[:400])
        bad = ("exc" in res and res.get("stage") not in ("write molfile", "read molfile")) or "died" in res
        try:
            k11_one(run, model, case["family"], case["n"])
        except Exception as e:
            print("k11:", type(e).__name__)
        bad = bad or len(run.falsifier_hits) > before
    elif prop == "C16" and "graph" in case:
        perm_one(run, model, case.get("family", "replay"), _graph_from_json(case["graph"]), case["seed"])
        bad = len([h for h in run.falsifier_hits[before:] if h["property"] == "C16"]) > 0
    elif prop == "C14":
        # a history / schedule: re-run the whole exploration with the recorded seed and tier
        c14(run, model)
        bad = len([h for h in run.falsifier_hits[before:] if h["property"] == "C14"]) > 0
    else:
        print("replay file names no replayable case:", json.dumps(rp.get("broken"))[:300])
        return 1
    for h in run.falsifier_hits[before:][:3]:
        print(json.dumps(h, default=str)[:500])
    if bad:
        print("VIOLATION property=%s replay=%s" % (prop, "(replayed)"))
        return 1
    print("not reproduced")
    return 0
