"""Implementation side: build graphs through the library's own constructors, observe results."""
import itertools
import networkx as nx
from tucan.graph_utils import graph_from_molecule, permute_molecule
from tucan.element_attributes import ELEMENT_ATTRS
from tucan.canonicalization import canonicalize_molecule
from tucan.serialization import serialize_molecule
from tucan.io import graph_from_tucan, TucanParserException, graph_from_molfile_text, graph_to_molfile, MolfileParserException

# the harness builds its molecules from its own periodic table; where the library's table differs, the pipeline shows it
from periodic import SYM, ZOF
ELEMENT_TABLE_DIFFERENCES = sorted(set((k, v["atomic_number"]) for k, v in ELEMENT_ATTRS.items()) ^ set(ZOF.items()))
TRACER = "_verif_orig"


def graph_of(am, extra=None):
    """nx graph of an abstract molecule via the library's own constructor."""
    atoms = {}
    for i, z in enumerate(am.zs):
        d = {"element_symbol": SYM[z], "atomic_number": z, "partition": 0}
        if i in am.mass:
            d["mass"] = am.mass[i]
        if i in am.rad:
            d["rad"] = am.rad[i]
        if extra:
            d.update(extra(i))
        atoms[i] = d
    return graph_from_molecule(atoms, {tuple(e): {} for e in am.edges})


def to_model(g):
    atoms = [(a, d["atomic_number"], d.get("mass"), d.get("rad"), d.get("partition", 0)) for a, d in g.nodes(data=True)]
    return atoms, [(u, v) for u, v in g.edges]


def view(g):
    """labelled coloured graph with listing order and non-identity data erased"""
    return (sorted((a, d["atomic_number"], d.get("mass", 0), d.get("rad", 0), d.get("partition")) for a, d in g.nodes(data=True)),
            sorted(tuple(sorted(e)) for e in g.edges))


def ident_view(g):
    return (sorted((a, d["atomic_number"], d.get("mass", 0), d.get("rad", 0)) for a, d in g.nodes(data=True)),
            sorted(tuple(sorted(e)) for e in g.edges))


def tucan_of(g):
    return serialize_molecule(canonicalize_molecule(g))


def node_match(a, b):
    return (a["atomic_number"], a.get("mass", 0), a.get("rad", 0)) == (b["atomic_number"], b.get("mass", 0), b.get("rad", 0))


def isomorphic(g1, g2):
    """independent of bliss: igraph's VF2 (C implementation) with (Z, mass, rad) colours"""
    if g1.number_of_nodes() != g2.number_of_nodes() or g1.number_of_edges() != g2.number_of_edges():
        return False
    from igraph import Graph as IG
    cols = {}
    def conv(g):
        nodes = list(g.nodes)
        pos = {a: i for i, a in enumerate(nodes)}
        col = [cols.setdefault((g.nodes[a]["atomic_number"], g.nodes[a].get("mass", 0), g.nodes[a].get("rad", 0)), len(cols)) for a in nodes]
        return IG(n=len(nodes), edges=[(pos[u], pos[v]) for u, v in g.edges]), col
    a, ca = conv(g1)
    b, cb = conv(g2)
    if sorted(ca) != sorted(cb):
        return False
    return a.isomorphic_vf2(b, color1=ca, color2=cb)


def brute_isomorphic(am1, am2):
    """independent of networkx: try all permutations (n <= 7)"""
    n = am1.n()
    if n != am2.n() or len(am1.edges) != len(am2.edges):
        return False
    c1 = [(am1.zs[i], am1.mass.get(i, 0), am1.rad.get(i, 0)) for i in range(n)]
    c2 = [(am2.zs[i], am2.mass.get(i, 0), am2.rad.get(i, 0)) for i in range(n)]
    if sorted(c1) != sorted(c2):
        return False
    e2 = set(tuple(sorted(e)) for e in am2.edges)
    for p in itertools.permutations(range(n)):
        if all(c1[i] == c2[p[i]] for i in range(n)) and all(tuple(sorted((p[u], p[v]))) in e2 for u, v in am1.edges):
            return True
    return False


def automorphisms(am):
    n = am.n()
    c = [(am.zs[i], am.mass.get(i, 0), am.rad.get(i, 0)) for i in range(n)]
    es = set(tuple(sorted(e)) for e in am.edges)
    out = []
    for p in itertools.permutations(range(n)):
        if all(c[i] == c[p[i]] for i in range(n)) and all(tuple(sorted((p[u], p[v]))) in es for u, v in es):
            out.append(p)
    return out


def parse_outcome(s):
    """('ok', atoms, bonds) | ('reject',) | ('unrelated', exception name)"""
    try:
        g = graph_from_tucan(s)
    except TucanParserException:
        return ("reject",)
    except RecursionError as e:
        return ("unrelated", "RecursionError")
    except Exception as e:
        return ("unrelated", type(e).__name__ + ": " + str(e)[:80])
    out = _graph_outcome(g)
    if len(s) <= 400:
        # the graph belongs to the caller: whatever the caller does to it, the next parse of the same string
        # must return the denoted graph again
        try:
            for a in list(g.nodes)[:1]:
                g.nodes[a]["mass"] = 7777
            g.add_node("scratch-node")
            g2 = graph_from_tucan(s)
        except Exception as e:
            return ("unrelated", "second parse of the same string raised %s" % type(e).__name__)
        out2 = _graph_outcome(g2)
        if out2 != out:
            return ("unrelated", "second parse of the same string returns another graph after the caller modified the first result (%d / %d atoms)"
                    % (len(out[1]), len(out2[1])))
    return out


def _graph_outcome(g):
    # a returned graph may be malformed (e.g. a node without attributes): report what is there
    atoms = [(a, d.get("atomic_number"), d.get("mass"), d.get("rad"), d.get("partition")) for a, d in sorted(g.nodes(data=True), key=lambda x: (not isinstance(x[0], int), x[0] if isinstance(x[0], int) else str(x[0])))]
    syms_ok = all(d.get("element_symbol") == SYM.get(d.get("atomic_number")) for _, d in g.nodes(data=True))
    return ("ok", atoms, sorted(tuple(sorted(e)) for e in g.edges), syms_ok)


def read_outcome(text):
    """('ok', atoms, bonds) | ('parser',) | ('other', name)"""
    try:
        g = graph_from_molfile_text(text)
    except MolfileParserException:
        return ("parser",)
    except Exception as e:
        return ("other", type(e).__name__)
    atoms = []
    for a, d in g.nodes(data=True):
        atoms.append((a, d["element_symbol"], d["atomic_number"], d.get("chg"), d.get("mass"), d.get("rad"),
                      d.get("partition"), d["x_coord"], d["y_coord"], d["z_coord"], d.get("invariant_code")))
    bonds = sorted((min(u, v), max(u, v), d.get("bond_type")) for u, v, d in g.edges(data=True))
    return ("ok", atoms, bonds)
