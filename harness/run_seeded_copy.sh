#!/bin/bash
# run_seeded_copy.sh <seeded-dir> [props...]: like run_seeded.sh but on a scratch copy of /repo (HEAD) under /tmp,
# so that /repo is not touched (used while something else is reading /repo). The copy is removed afterwards.
set -u
dir="$1"; shift
props="$@"
cd /verif
if [ -z "$props" ]; then props=$(python3 -c "import json;print(json.load(open('$dir/meta.json'))['property'])"); fi
S=$(mktemp -d /tmp/tucan-scratch-XXXXXX)
trap 'rm -rf "$S"' EXIT
git -C /repo archive HEAD | tar -x -C "$S"
( cd "$S" && git init -q . && git apply "$dir/patch.diff" ) || { echo "patch does not apply"; exit 2; }
for p in $props; do
  echo "--- $p on $(basename $dir)"
  TUCAN_REPO="$S" timeout 1800 ./check $p --tier quick 2>&1 | grep -E "VIOLATION|KNOWN-FINDING|PASS|FAIL" | head -5 | cut -c1-230
done
