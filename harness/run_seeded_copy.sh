#!/bin/bash
# run_seeded_copy.sh <seeded-dir> [props...]: apply a seeded change to a scratch copy of /repo (HEAD) and run the check(s) against it
# from a private copy of /verif (so that parallel runs cannot see each other's regenerated tables). /repo and /verif are not touched,
# except that replay files are copied back to /verif/replay. Both copies are removed afterwards.
set -u
dir="$1"; shift
props="$@"
if [ -z "$props" ]; then props=$(python3 -c "import json;print(json.load(open('$dir/meta.json'))['property'])"); fi
S=$(mktemp -d /tmp/tucan-scratch-XXXXXX); W=$(mktemp -d /tmp/verif-seeded-XXXXXX)
trap 'rm -rf "$S" "$W"' EXIT
git -C /repo archive HEAD | tar -x -C "$S"
( cd "$S" && git init -q . && git apply "$dir/patch.diff" ) || { echo "patch does not apply"; exit 2; }
rsync -a --exclude .git --exclude replay --exclude seeded --exclude neutral /verif/ "$W/"
cd "$W"
for p in $props; do
  echo "--- $p on $(basename $dir)"
  TUCAN_REPO="$S" timeout 1800 ./check $p --tier quick 2>&1 | grep -E "VIOLATION|KNOWN-FINDING|PASS|FAIL" | head -5 | cut -c1-230 | sed "s#$W/#/verif/#"
done
mkdir -p /verif/replay; cp -n "$W"/replay/* /verif/replay/ 2>/dev/null
exit 0
