"""Translator for decision points: /repo sources -> coq/gen/Logic.v.

Where gen_tables.py reads constants and tables, this reads the *decisions* the hand-written model
hard-codes: comparison operators of guards, index offsets, which sequences are sorted before use,
which conditions raise.  Each item is read from the Python AST of one function.  A function whose
shape is not the expected one makes the item fall back to the committed value and is listed in
`fallbacks` (fail-soft: a behaviour-preserving rewrite is not an alarm; the behavioural
correspondence K4/K5/K7/K8 still ties that function).  A function of the expected shape whose
operator / offset / flag differs changes gen/Logic.v, and Proofs/ParamsSpec.v (required by every
Props file) no longer compiles.
"""
import ast, os, sys, json

REPO = os.environ.get("TUCAN_REPO", "/repo")
GEN = os.path.join(os.path.dirname(os.path.abspath(__file__)), "..", "coq", "gen")
fallbacks = []

DEFAULTS = {
    # tucan/parser/parser.py (TucanListenerImpl)
    "listener_selfloop_test": "Eq",          # enterTuple: if index1 == index2: raise
    "listener_bond_offsets": [1, 1],         # _add_bond: (index1 - 1, index2 - 1)
    "listener_attr_offset": 1,               # _add_node_attribute: node_index - 1
    "listener_dup_attr_test": "In",          # if attr_key in attrs_for_node: raise
    "listener_validate_op": "GtE",           # _validate_atom_index: if index >= len(self._atoms): raise
    "listener_validate_calls": [2, 1],       # to_graph: both bond endpoints, every attribute index
    "listener_sort_key": "ATOMIC_NUMBER",    # sorted(self._atoms, key=lambda a: a[ATOMIC_NUMBER])
    "listener_sort_reverse": False,
    "listener_default_count": 1,             # _parse_sum_formula: count = 1
    # tucan/serialization.py
    "edge_inner_sorted": True,               # sorted(edge)
    "edge_outer_sorted": True,               # sorted([...])
    "edge_offsets": [1, 1],                  # edge[0] + 1, edge[1] + 1
    "edge_literals": ["(", "-", ")"],
    "attr_nodes_sorted": True,               # for label, attrs in sorted(m.nodes(data=True))
    "attr_label_offset": 1,                  # label + 1
    "final_sort_key": "ATOMIC_NUMBER",       # sort_molecule_by_attribute(..., ATOMIC_NUMBER)
    "formula_count_test": "Gt",              # f"{k}{v}" if v > 1 else k
    "formula_count_bound": 1,
    "formula_rest_sorted": True,             # sorted(element_counts.items())
    "labels_by_partition_reverse": True,     # sorted(list(v), reverse=True)  (pop() takes the smallest)
    "unexplored_sorted": True,               # sorted([k for k, v in m.nodes(data=EXPLORED) if not v])
    "neighbors_sorted": True,                # sorted(neighbors_this_priority)
    # tucan/canonicalization.py
    "partition_unique_sorted": True,         # sorted(set(attr_seqs))
    "partition_count_fn": "max",             # get_number_of_partitions: max(...)
    "refine_stop_test": "Eq",                # if get_number_of_partitions(m_refined) == get_number_of_partitions(m)
    "canon_empty_test": ["Eq", 0],           # if m.number_of_nodes() == 0
    "canon_relabel_copy": True,              # nx.relabel_nodes(..., copy=True)
    # tucan/graph_utils.py
    "invariant_code_plain": True,            # InvariantCodeDefinition(KEY[, default]) only; value = attrs.get(key, default) / attrs[key]
    "attribute_sequence_own_first": True,    # return tuple([attr_atom] + attr_neighbors)
    # tucan/io/molfile_v3000_reader.py (_parse_atom_attributes: loop over CHG / MASS / RAD)
    "v3000_negative_test": ["Lt", 0],        # if key != CHG and val and val[-1] < 0: raise
    "v3000_negative_exempt": "CHG",
    "v3000_store_test": ["NotEq", 0],        # if val and val[-1] != 0: atom_attrs[key] = val[-1]
    "v3000_last_wins": True,                 # every use of val is val[-1] (or its truth value)
    "v3000_attr_loop_plain": True,           # no break / continue / return inside the loop
    # tucan/io/molfile_v2000_reader.py (_parse_attribute_block)
    "v2000_reset_both": True,                # any M  CHG or M  RAD line clears BOTH the charges and the radicals of the atom block
}


def _src(rel):
    with open(os.path.join(REPO, rel)) as fh:
        return fh.read()


def _func(tree, name):
    for n in ast.walk(tree):
        if isinstance(n, ast.FunctionDef) and n.name == name:
            return n
    raise KeyError(name)


def _raising_ifs(fn):
    return [n for n in ast.walk(fn) if isinstance(n, ast.If) and any(isinstance(s, ast.Raise) for s in n.body)]


def _op(cmp):
    assert isinstance(cmp, ast.Compare) and len(cmp.ops) == 1
    return type(cmp.ops[0]).__name__


def _is_call(n, name):
    return isinstance(n, ast.Call) and (getattr(n.func, "id", None) == name or getattr(n.func, "attr", None) == name)


def _sub_const(n):
    """Name - Constant -> Constant ; Name + Constant -> -Constant ; Name -> 0"""
    if isinstance(n, (ast.Name, ast.Subscript)):
        return 0
    assert isinstance(n, ast.BinOp) and isinstance(n.right, ast.Constant) and isinstance(n.right.value, int)
    if isinstance(n.op, ast.Sub):
        return n.right.value
    assert isinstance(n.op, ast.Add)
    return -n.right.value


def _add_const(n):
    return -_sub_const(n)


def _item(p, key, thunk):
    try:
        v = thunk()
        assert type(v) is type(DEFAULTS[key]), (v, DEFAULTS[key])
        p[key] = v
    except Exception as e:
        fallbacks.append("%s: %r" % (key, e))
        p[key] = DEFAULTS[key]


def extract():
    p = {}
    # ------------------------------------------------------------------ parser.py
    try:
        ptree = ast.parse(_src("tucan/parser/parser.py"))
    except Exception as e:
        ptree = ast.parse("")
        fallbacks.append("parser.py: %r" % (e,))

    def selfloop():
        ifs = _raising_ifs(_func(ptree, "enterTuple"))
        assert len(ifs) == 1
        t = ifs[0].test
        assert isinstance(t.left, ast.Name) and isinstance(t.comparators[0], ast.Name) and t.left.id != t.comparators[0].id
        return _op(t)
    _item(p, "listener_selfloop_test", selfloop)

    def bond_offsets():
        fn = _func(ptree, "_add_bond")
        calls = [n for n in ast.walk(fn) if _is_call(n, "append")]
        assert len(calls) == 1 and isinstance(calls[0].args[0], ast.Tuple)
        a, b = calls[0].args[0].elts
        assert a.left.id == fn.args.args[1].arg and b.left.id == fn.args.args[2].arg
        return [_sub_const(a), _sub_const(b)]
    _item(p, "listener_bond_offsets", bond_offsets)

    def attr_offset():
        fn = _func(ptree, "_add_node_attribute")
        calls = [n for n in ast.walk(fn) if _is_call(n, "setdefault")]
        assert len(calls) == 1
        return _sub_const(calls[0].args[0])
    _item(p, "listener_attr_offset", attr_offset)

    def dup_attr():
        ifs = _raising_ifs(_func(ptree, "_add_node_attribute"))
        assert len(ifs) == 1
        return _op(ifs[0].test)
    _item(p, "listener_dup_attr_test", dup_attr)

    def validate_op():
        fn = _func(ptree, "_validate_atom_index")
        ifs = _raising_ifs(fn)
        assert len(ifs) == 1
        t = ifs[0].test
        assert isinstance(t.left, ast.Name) and t.left.id == fn.args.args[1].arg
        c = t.comparators[0]
        assert _is_call(c, "len") and isinstance(c.args[0], ast.Attribute) and c.args[0].attr == "_atoms"
        return _op(t)
    _item(p, "listener_validate_op", validate_op)

    def validate_calls():
        fn = _func(ptree, "to_graph")
        out = []
        for loop in [n for n in fn.body if isinstance(n, ast.For)]:
            src = ast.unparse(loop.iter)
            k = sum(1 for n in ast.walk(loop) if _is_call(n, "_validate_atom_index"))
            if "_bonds" in src:
                # the two calls must validate the two loop variables
                names = sorted(c.args[0].id for c in ast.walk(loop) if _is_call(c, "_validate_atom_index"))
                assert names == sorted(e.id for e in loop.target.elts)
                out.append(k)
            elif "_node_attributes" in src:
                out.append(k)
        assert len(out) == 2
        return out
    _item(p, "listener_validate_calls", validate_calls)

    def sort_call():
        fn = _func(ptree, "to_graph")
        calls = [n for n in ast.walk(fn) if _is_call(n, "sorted")]
        assert len(calls) == 1
        return calls[0]
    def sort_key():
        c = sort_call()
        kw = {k.arg: k.value for k in c.keywords}
        lam = kw["key"]
        assert isinstance(lam, ast.Lambda) and isinstance(lam.body, ast.Subscript) and lam.body.value.id == lam.args.args[0].arg
        return lam.body.slice.id
    _item(p, "listener_sort_key", sort_key)
    def sort_rev():
        kw = {k.arg: k.value for k in sort_call().keywords}
        return bool(ast.literal_eval(kw["reverse"])) if "reverse" in kw else False
    _item(p, "listener_sort_reverse", sort_rev)

    def default_count():
        fn = _func(ptree, "_parse_sum_formula")
        vals = [n.value.value for n in ast.walk(fn) if isinstance(n, ast.Assign) and getattr(n.targets[0], "id", "") == "count"
                and isinstance(n.value, ast.Constant)]
        assert len(vals) == 1
        return vals[0]
    _item(p, "listener_default_count", default_count)

    # ------------------------------------------------------------------ serialization.py
    try:
        stree = ast.parse(_src("tucan/serialization.py"))
    except Exception as e:
        stree = ast.parse("")
        fallbacks.append("serialization.py: %r" % (e,))

    def edge_sorted_assign():
        fn = _func(stree, "_write_edge_list")
        a = [n for n in fn.body if isinstance(n, ast.Assign) and getattr(n.targets[0], "id", "") == "sorted_edges"]
        assert len(a) == 1
        return a[0].value
    def edge_outer():
        v = edge_sorted_assign()
        if _is_call(v, "sorted"):
            return True
        assert isinstance(v, ast.ListComp)
        return False
    _item(p, "edge_outer_sorted", edge_outer)
    def edge_inner():
        v = edge_sorted_assign()
        lc = v.args[0] if _is_call(v, "sorted") else v
        assert isinstance(lc, ast.ListComp) and ast.unparse(lc.generators[0].iter) == "m.edges()"
        if _is_call(lc.elt, "sorted"):
            return True
        assert isinstance(lc.elt, (ast.Name, ast.Call))
        return False
    _item(p, "edge_inner_sorted", edge_inner)
    def edge_fstring():
        fn = _func(stree, "_write_edge_list")
        js = [n for n in ast.walk(fn) if isinstance(n, ast.JoinedStr)]
        assert len(js) == 1
        return js[0]
    def edge_offsets():
        out = []
        for v in edge_fstring().values:
            if isinstance(v, ast.FormattedValue):
                e = v.value
                assert isinstance(e.left, ast.Subscript) and e.left.slice.value == len(out)
                out.append(_add_const(e))
        assert len(out) == 2
        return out
    _item(p, "edge_offsets", edge_offsets)
    _item(p, "edge_literals", lambda: [v.value for v in edge_fstring().values if isinstance(v, ast.Constant)])

    def attr_loop():
        fn = _func(stree, "_write_node_attributes")
        loops = [n for n in fn.body if isinstance(n, ast.For)]
        assert len(loops) == 1
        return loops[0]
    def attr_sorted():
        it = attr_loop().iter
        if _is_call(it, "sorted"):
            assert ast.unparse(it.args[0]) == "m.nodes(data=True)" and not it.keywords
            return True
        assert ast.unparse(it) == "m.nodes(data=True)"
        return False
    _item(p, "attr_nodes_sorted", attr_sorted)
    def attr_offset_s():
        loop = attr_loop()
        lab = loop.target.elts[0].id
        offs = [_add_const(n) for n in ast.walk(loop) if isinstance(n, ast.BinOp) and isinstance(n.left, ast.Name) and n.left.id == lab]
        assert len(offs) == 1
        return offs[0]
    _item(p, "attr_label_offset", attr_offset_s)

    def final_key():
        fn = _func(stree, "serialize_molecule")
        calls = [n for n in ast.walk(fn) if _is_call(n, "sort_molecule_by_attribute")]
        assert len(calls) == 1 and _is_call(calls[0].args[0], "_assign_final_labels")
        return calls[0].args[1].id
    _item(p, "final_sort_key", final_key)

    def formula_ifexps():
        fn = _func(stree, "_write_sum_formula")
        ies = [n for n in ast.walk(fn) if isinstance(n, ast.IfExp)]
        assert len(ies) == 3
        tests = set((_op(i.test), i.test.comparators[0].value) for i in ies)
        assert len(tests) == 1
        for i in ies:   # the branch taken when the test holds writes the count, the other does not
            assert isinstance(i.body, ast.JoinedStr) and not isinstance(i.orelse, ast.JoinedStr)
        return tests.pop()
    _item(p, "formula_count_test", lambda: formula_ifexps()[0])
    _item(p, "formula_count_bound", lambda: formula_ifexps()[1])
    def formula_sorted():
        fn = _func(stree, "_write_sum_formula")
        loops = [n for n in fn.body if isinstance(n, ast.For)]
        assert len(loops) == 1
        s = ast.unparse(loop_iter := loops[0].iter)
        if "sorted(element_counts.items())" in s:
            assert "reverse" not in s and "key" not in s
            return True
        assert "element_counts" in s
        return False
    _item(p, "formula_rest_sorted", formula_sorted)

    def lbp_reverse():
        fn = _func(stree, "_labels_by_partition")
        calls = [n for n in ast.walk(fn) if _is_call(n, "sorted") and n.keywords]
        assert len(calls) == 1
        kw = {k.arg: k.value for k in calls[0].keywords}
        assert set(kw) == {"reverse"}
        # consumed with .pop() (from the end) in _assign_final_labels
        afl = _func(stree, "_assign_final_labels")
        pops = [n for n in ast.walk(afl) if _is_call(n, "pop") and isinstance(n.func.value, ast.Subscript)
                and getattr(n.func.value.value, "id", "") == "labels_by_partition"]
        assert len(pops) == 1 and not pops[0].args
        return bool(ast.literal_eval(kw["reverse"]))
    _item(p, "labels_by_partition_reverse", lbp_reverse)
    def unexplored_sorted():
        afl = _func(stree, "_assign_final_labels")
        ws = [n for n in ast.walk(afl) if isinstance(n, ast.While) and isinstance(n.test, ast.NamedExpr)]
        assert len(ws) == 1
        v = ws[0].test.value
        if _is_call(v, "sorted"):
            assert not v.keywords
            return True
        assert isinstance(v, ast.ListComp)
        return False
    _item(p, "unexplored_sorted", unexplored_sorted)
    def neighbors_sorted():
        afl = _func(stree, "_assign_final_labels")
        ext = [n for n in ast.walk(afl) if _is_call(n, "extend") and getattr(n.func.value, "id", "") == "neighbor_traversal_order"]
        assert len(ext) == 1
        a = ext[0].args[0]
        if _is_call(a, "sorted"):
            assert not a.keywords
            return True
        assert isinstance(a, ast.Name)
        return False
    _item(p, "neighbors_sorted", neighbors_sorted)

    # ------------------------------------------------------------------ canonicalization.py
    try:
        ctree = ast.parse(_src("tucan/canonicalization.py"))
    except Exception as e:
        ctree = ast.parse("")
        fallbacks.append("canonicalization.py: %r" % (e,))

    def uniq_sorted():
        fn = _func(ctree, "partition_molecule_by_attribute")
        a = [n for n in fn.body if isinstance(n, ast.Assign) and getattr(n.targets[0], "id", "") == "unique_attr_seqs"]
        assert len(a) == 1
        v = a[0].value
        if _is_call(v, "sorted"):
            assert not v.keywords and _is_call(v.args[0], "set")
            return True
        assert _is_call(v, "set") or _is_call(v, "list")
        return False
    _item(p, "partition_unique_sorted", uniq_sorted)
    def count_fn():
        fn = _func(ctree, "get_number_of_partitions")
        assert len(fn.body) == 1 and isinstance(fn.body[0], ast.Return) and isinstance(fn.body[0].value, ast.Call)
        c = fn.body[0].value
        assert "PARTITION" in ast.unparse(c.args[0])
        return c.func.id
    _item(p, "partition_count_fn", count_fn)
    def refine_stop():
        fn = _func(ctree, "refine_partitions")
        ifs = [n for n in ast.walk(fn) if isinstance(n, ast.If)]
        assert len(ifs) == 1
        t = ifs[0].test
        assert _is_call(t.left, "get_number_of_partitions") and _is_call(t.comparators[0], "get_number_of_partitions")
        assert {t.left.args[0].id, t.comparators[0].args[0].id} == {"m", "m_refined"}
        assert any(isinstance(n, ast.Yield) and n.value.id == "m_refined" for n in ast.walk(ifs[0]))
        return _op(t)
    _item(p, "refine_stop_test", refine_stop)
    def empty_test():
        fn = _func(ctree, "canonicalize_molecule")
        first = fn.body[0]
        assert isinstance(first, ast.If) and isinstance(first.body[-1], ast.Return)
        t = first.test
        assert ast.unparse(t.left) == "m.number_of_nodes()"
        return [_op(t), t.comparators[0].value]
    _item(p, "canon_empty_test", empty_test)
    def relabel_copy():
        fn = _func(ctree, "canonicalize_molecule")
        r = fn.body[-1]
        assert isinstance(r, ast.Return) and _is_call(r.value, "relabel_nodes")
        kw = {k.arg: k.value for k in r.value.keywords}
        return bool(ast.literal_eval(kw["copy"])) if "copy" in kw else True
    _item(p, "canon_relabel_copy", relabel_copy)
    # ------------------------------------------------------------------ graph_utils.py
    try:
        gtree = ast.parse(_src("tucan/graph_utils.py"))
    except Exception as e:
        gtree = ast.parse("")
        fallbacks.append("graph_utils.py: %r" % (e,))

    def inv_plain():
        fn = _func(gtree, "graph_from_molecule")
        calls = [n for n in ast.walk(fn) if _is_call(n, "InvariantCodeDefinition")]
        assert len(calls) >= 1
        plain = all(len(c.args) in (1, 2) and not c.keywords for c in calls)
        # the class itself: two fields; the value taken is attrs[key] or attrs.get(key, default)
        cls = [n for n in ast.walk(gtree) if isinstance(n, ast.ClassDef) and n.name == "InvariantCodeDefinition"]
        assert len(cls) == 1
        fields = [n.target.id for n in cls[0].body if isinstance(n, ast.AnnAssign)]
        add = _func(gtree, "_add_invariant_code")
        gets = [n for n in ast.walk(add) if _is_call(n, "get")]
        conds = [n for n in ast.walk(add) if isinstance(n, ast.IfExp)]
        assert len(gets) == 1 and len(conds) >= 1
        return plain and fields == ["key", "default_value"] and len(conds) == 1
    _item(p, "invariant_code_plain", inv_plain)

    def own_first():
        fn = _func(gtree, "attribute_sequence")
        r = fn.body[-1]
        assert isinstance(r, ast.Return)
        v = r.value
        if isinstance(v, ast.Tuple):                         # (attr_atom, *attr_neighbors)
            e = v.elts
            assert len(e) == 2
            return isinstance(e[0], ast.Name) and e[0].id == "attr_atom" and isinstance(e[1], ast.Starred)
        assert _is_call(v, "tuple") and isinstance(v.args[0], ast.BinOp) and isinstance(v.args[0].op, ast.Add)   # tuple([attr_atom] + attr_neighbors)
        l, rr = v.args[0].left, v.args[0].right
        assert isinstance(l, (ast.List, ast.Name)) and isinstance(rr, (ast.List, ast.Name))
        return isinstance(l, ast.List) and len(l.elts) == 1 and getattr(l.elts[0], "id", "") == "attr_atom" and getattr(rr, "id", "") == "attr_neighbors"
    _item(p, "attribute_sequence_own_first", own_first)
    # ------------------------------------------------------------------ molfile_v3000_reader.py
    try:
        rtree = ast.parse(_src("tucan/io/molfile_v3000_reader.py"))
    except Exception as e:
        rtree = ast.parse("")
        fallbacks.append("molfile_v3000_reader.py: %r" % (e,))

    def attr_loop3():
        fn = _func(rtree, "_parse_atom_attributes")
        loops = [n for n in ast.walk(fn) if isinstance(n, ast.For) and "optional_attrs" in ast.unparse(n.iter)]
        assert len(loops) == 1
        return loops[0]

    def last_elem_cmp(test, var):
        """BoolOp(And, [..., var, Compare(var[-1] op const)]) -> [op, const]"""
        assert isinstance(test, ast.BoolOp) and isinstance(test.op, ast.And)
        assert any(isinstance(v, ast.Name) and v.id == var for v in test.values)
        cmps = [v for v in test.values if isinstance(v, ast.Compare) and isinstance(v.left, ast.Subscript)]
        assert len(cmps) == 1 and ast.unparse(cmps[0].left) == var + "[-1]"
        return [_op(cmps[0]), cmps[0].comparators[0].value], test

    def neg_test():
        loop = attr_loop3()
        ifs = _raising_ifs(loop)
        assert len(ifs) == 1
        return last_elem_cmp(ifs[0].test, loop.target.elts[1].id)
    _item(p, "v3000_negative_test", lambda: neg_test()[0])
    def neg_exempt():
        loop = attr_loop3()
        _, test = neg_test()
        ex = [v for v in test.values if isinstance(v, ast.Compare) and isinstance(v.left, ast.Name) and v.left.id == loop.target.elts[0].id]
        assert len(ex) == 1 and _op(ex[0]) == "NotEq"
        return ex[0].comparators[0].id
    _item(p, "v3000_negative_exempt", neg_exempt)
    def store_test():
        loop = attr_loop3()
        ifs = [n for n in loop.body if isinstance(n, ast.If) and not any(isinstance(x, ast.Raise) for x in n.body)]
        assert len(ifs) == 1 and len(ifs[0].body) == 1 and isinstance(ifs[0].body[0], ast.Assign) and not ifs[0].orelse
        assert ast.unparse(ifs[0].body[0].value) == loop.target.elts[1].id + "[-1]"
        return last_elem_cmp(ifs[0].test, loop.target.elts[1].id)[0]
    _item(p, "v3000_store_test", store_test)
    def last_wins():
        loop = attr_loop3()
        var = loop.target.elts[1].id
        subs = [ast.unparse(n) for n in ast.walk(loop) if isinstance(n, ast.Subscript) and getattr(n.value, "id", "") == var]
        calls = [n for n in ast.walk(loop) if isinstance(n, ast.Call) and any(getattr(a, "id", "") == var for a in n.args)]
        assert subs
        return all(x == var + "[-1]" for x in subs) and not calls
    _item(p, "v3000_last_wins", last_wins)
    _item(p, "v3000_attr_loop_plain", lambda: not any(isinstance(n, (ast.Break, ast.Continue, ast.Return)) for n in ast.walk(attr_loop3())))

    # ------------------------------------------------------------------ molfile_v2000_reader.py
    def reset_both():
        tree = ast.parse(_src("tucan/io/molfile_v2000_reader.py"))
        fn = _func(tree, "_parse_attribute_block")
        flag = "reset_chg_and_rad"
        sets = [n for n in ast.walk(fn) if isinstance(n, ast.Assign) and getattr(n.targets[0], "id", "") == flag and getattr(n.value, "value", None) is True]
        guarded = [n for n in ast.walk(fn) if isinstance(n, ast.If) and getattr(n.test, "id", "") == flag]
        assert len(guarded) == 1
        cleared = sorted(c.args[0].id for c in ast.walk(guarded[0]) if _is_call(c, "_clear_atom_attribute"))
        # the flag is set in the branch of the CHG lines and in the branch of the RAD lines
        branches = [n for n in ast.walk(fn) if isinstance(n, ast.If) and _is_call(n.test, "startswith")]
        setters = sorted(ast.literal_eval(b.test.args[0]) for b in branches if any(x in sets for x in ast.walk(ast.Module(body=b.body, type_ignores=[]))))
        elsewhere = [c for c in ast.walk(fn) if _is_call(c, "_clear_atom_attribute") and c not in list(ast.walk(guarded[0]))]
        return cleared == ["CHG", "RAD"] and setters == ["M  CHG", "M  RAD"] and not elsewhere
    _item(p, "v2000_reset_both", reset_both)
    return p


def cstr(s):
    return '"' + s.replace('"', '""') + '"'


def cval(v):
    if isinstance(v, bool):
        return "true" if v else "false", "bool"
    if isinstance(v, int):
        return "(%d)%%Z" % v, "Z"
    if isinstance(v, str):
        return cstr(v), "string"
    if isinstance(v, list) and v and all(isinstance(x, int) and not isinstance(x, bool) for x in v):
        return "[" + "; ".join("(%d)%%Z" % x for x in v) + "]", "list Z"
    if isinstance(v, list) and all(isinstance(x, str) for x in v):
        return "[" + "; ".join(cstr(x) for x in v) + "]", "list string"
    if isinstance(v, list) and len(v) == 2 and isinstance(v[0], str) and isinstance(v[1], int):
        return "(%s, (%d)%%Z)" % (cstr(v[0]), v[1]), "string * Z"
    raise TypeError(v)


def emit():
    fallbacks.clear()
    p = extract()
    body = "(* GENERATED by harness/gen_logic.py from the Python sources -- do not edit *)\n"
    body += "From Coq Require Import List ZArith String Bool.\nImport ListNotations.\nOpen Scope string_scope.\n\n"
    for k in DEFAULTS:
        val, ty = cval(p[k])
        body += "Definition %s : %s := %s.\n" % (k, ty, val)
    path = os.path.join(GEN, "Logic.v")
    old = open(path).read() if os.path.exists(path) else None
    if old != body:
        with open(path, "w") as fh:
            fh.write(body)
    return {"fallbacks": list(fallbacks), "params": p}


if __name__ == "__main__":
    json.dump(emit(), sys.stdout, indent=1)
    print()
