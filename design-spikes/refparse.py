import re, random, sys
from tucan.element_attributes import ELEMENT_ATTRS
from tucan.io import graph_from_tucan, TucanParserException
SYMS=set(ELEMENT_ATTRS)
Z={s:ELEMENT_ATTRS[s]['atomic_number'] for s in SYMS}
alpha=sorted(SYMS)
ORDER_WC=['C','H']+[s for s in alpha if s not in('C','H')]
ORDER_NC=[s for s in alpha if s!='C']
LITS=sorted(list(SYMS)+['/','(',')','-',':',',','=','mass','rad'],key=len,reverse=True)
def lex(s):
    i=0;toks=[]
    while i<len(s):
        best=None
        for l in LITS:
            if s.startswith(l,i):
                best=l;break
        m=re.compile(r'[1-9][0-9]*').match(s,i)
        if m and (best is None or len(m.group())>=len(best)):
            toks.append(('num',int(m.group())));i=m.end();continue
        if best is None: return None
        toks.append((best,None));i+=len(best)
    return toks
def ref(s):
    toks=lex(s)
    if toks is None: return None
    p=0
    def peek(): return toks[p][0] if p<len(toks) else None
    # formula
    items=[]
    while peek() in SYMS:
        sym=peek();p+=1;cnt=1
        if peek()=='num':
            cnt=toks[p][1];p+=1
            if cnt<2:return None
        items.append((sym,cnt))
    syms=[s for s,_ in items]
    order=ORDER_WC if (syms and syms[0]=='C') else ORDER_NC
    idx=[order.index(s) if s in order else -1 for s in syms]
    if any(i<0 for i in idx) or any(a>=b for a,b in zip(idx,idx[1:])): return None
    if peek()!='/':return None
    p+=1
    bonds=[]
    while peek()=='(':
        if p+4<len(toks) and toks[p+1][0]=='num' and toks[p+2][0]=='-' and toks[p+3][0]=='num' and toks[p+4][0]==')':
            bonds.append((toks[p+1][1],toks[p+3][1]));p+=5
        else:return None
    attrs=[]
    if peek()=='/':
        p+=1
        while peek()=='(':
            if not(p+2<len(toks) and toks[p+1][0]=='num' and toks[p+2][0]==':'):return None
            idx_=toks[p+1][1];p+=3;props=[]
            while True:
                if not(p+2<len(toks) and toks[p][0] in('mass','rad') and toks[p+1][0]=='=' and toks[p+2][0]=='num'):return None
                props.append((toks[p][0],toks[p+2][1]));p+=3
                if peek()==',':p+=1;continue
                break
            if peek()!=')':return None
            p+=1
            attrs.append((idx_,props))
    if p!=len(toks):return None
    atoms=[]
    for s_,c in items: atoms+= [s_]*c
    n=len(atoms)
    for a,b in bonds:
        if a==b or a>n or b>n:return None
    d={}
    for i,props in attrs:
        if i>n:return None
        for k,v in props:
            if (i,k) in d:return None
            d[(i,k)]=v
    atoms=sorted(atoms,key=lambda s:Z[s])
    return (atoms,sorted(set((min(a,b),max(a,b)) for a,b in bonds)),sorted(d.items()))
def impl(s):
    try: g=graph_from_tucan(s)
    except TucanParserException: return None
    atoms=[g.nodes[i]['element_symbol'] for i in sorted(g)]
    d={}
    for i in g:
        for k in('mass','rad'):
            if k in g.nodes[i]: d[(i+1,k)]=g.nodes[i][k]
    return (atoms,sorted((min(a,b)+1,max(a,b)+1) for a,b in g.edges),sorted(d.items()))
def gen(r):
    k=r.randint(0,4)
    syms=r.sample(sorted(SYMS),k) if r.random()<.7 else r.sample(['C','H','O','N','Cl','Co','Cn','He','Hf'],min(k,4))
    if r.random()<.9:
        order=ORDER_WC if 'C' in syms else ORDER_NC
        syms.sort(key=order.index)
    else: r.shuffle(syms)
    f=''.join(s+(str(r.choice([2,3,9,10,12])) if r.random()<.5 else (r.choice(['1','0','01','']) if r.random()<.1 else '')) for s in syms)
    n=r.randint(0,8)
    t=''.join(f"({r.randint(1,n+1)}-{r.randint(1,n+1)})" for _ in range(r.randint(0,4))) if n else ''
    a=''
    if r.random()<.5:
        a='/'+''.join(f"({r.randint(1,n+1)}:"+','.join(f"{r.choice(['mass','rad'])}={r.choice([1,2,3,13,0,'01'])if r.random()<.2 else r.randint(1,300)}" for _ in range(r.randint(1,2)))+")" for _ in range(r.randint(0,3)))
    s=f+'/'+t+a
    if r.random()<.3 and s:
        i=r.randrange(len(s)); op=r.random()
        if op<.3: s=s[:i]+s[i+1:]
        elif op<.6: s=s[:i]+r.choice('()-/:,=0123456789CHhemasrd ')+s[i:]
        else: s=s[:i]+r.choice('()-/:,=0123456789CHhemasrd')+s[i+1:]
    return s
r=random.Random(int(sys.argv[1]));acc=0;bad=0
for it in range(int(sys.argv[2])):
    s=gen(r)
    try: a=impl(s)
    except Exception as e:
        print("UNRELATED",repr(s),type(e).__name__,e);bad+=1;continue
    b=ref(s)
    if a is not None: acc+=1
    if a!=b:
        bad+=1
        if bad<10:print("DIFF",repr(s),a,b)
print("accepted",acc,"bad",bad)
