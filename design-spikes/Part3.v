From Coq Require Import List NArith Bool Lia Permutation.
Require Import Core Part Part2.
Import ListNotations.
Open Scope N_scope.

Section Lookup.
  Variable V : Type.
  Fixpoint lookup (l : list (N * V)) (n : N) : option V :=
    match l with [] => None | (k, v) :: t => if k =? n then Some v else lookup t n end.
  Lemma lookup_in l n v : NoDup (map fst l) -> In (n, v) l -> lookup l n = Some v.
  Proof.
    induction l as [|[k w] t IH]; simpl; intros Hnd Hin; [contradiction|].
    inversion Hnd as [|? ? Hnotin Hnd']; subst.
    destruct Hin as [E|Hin].
    - inversion E; subst. rewrite N.eqb_refl. reflexivity.
    - destruct (N.eqb_spec k n) as [->|_].
      + exfalso. apply Hnotin. apply (in_map fst) in Hin. exact Hin.
      + apply IH; assumption.
  Qed.
  Lemma lookup_none l n : ~ In n (map fst l) -> lookup l n = None.
  Proof.
    induction l as [|[k w] t IH]; simpl; intros H; [reflexivity|].
    destruct (N.eqb_spec k n) as [->|_]; [exfalso; apply H; left; reflexivity|].
    apply IH. intros Hin. apply H. right. exact Hin.
  Qed.
  Lemma lookup_some_in l n v : lookup l n = Some v -> In (n, v) l.
  Proof.
    induction l as [|[k w] t IH]; simpl; [discriminate|].
    destruct (N.eqb_spec k n) as [->|_]; [intros E; inversion E; left; reflexivity|].
    intros H; right; apply IH, H.
  Qed.
  Lemma lookup_perm l l' n : NoDup (map fst l) -> Permutation l l' -> lookup l n = lookup l' n.
  Proof.
    intros Hnd HP.
    assert (Hnd' : NoDup (map fst l')) by (eapply Permutation_NoDup; [apply Permutation_map, HP | exact Hnd]).
    destruct (lookup l n) as [v|] eqn:E.
    - symmetry. apply lookup_in; [exact Hnd'|]. eapply Permutation_in; [exact HP|]. apply lookup_some_in, E.
    - destruct (lookup l' n) as [v|] eqn:E'; [|reflexivity].
      apply lookup_some_in in E'. apply (Permutation_in _ (Permutation_sym HP)) in E'.
      rewrite (lookup_in _ _ _ Hnd E') in E. discriminate.
  Qed.
  Lemma lookup_map_key (f : N -> N) l n :
    (forall x y, In x (map fst l) -> In y (map fst l) -> f x = f y -> x = y) -> In n (map fst l) ->
    lookup (map (fun kv => (f (fst kv), snd kv)) l) (f n) = lookup l n.
  Proof.
    induction l as [|[k w] t IH]; simpl; intros Hinj Hn; [contradiction|].
    destruct (N.eqb_spec k n) as [->|Hkn].
    - rewrite N.eqb_refl. reflexivity.
    - destruct (N.eqb_spec (f k) (f n)) as [E|_].
      + apply Hinj in E; [congruence | left; reflexivity | exact Hn].
      + destruct Hn as [E|Hn]; [congruence|].
        destruct (in_dec N.eq_dec n (map fst t)) as [Hin|Hnot].
        * apply IH; [|exact Hin]. intros x y Hx Hy. apply Hinj; right; assumption.
        * clear IH. rewrite (lookup_none t n Hnot). contradiction.
  Qed.
End Lookup.
Arguments lookup {V}.

Lemma find_atom_lookup {P V} (val : atom P -> V) (l : list (atom P)) n :
  option_map val (find_atom l n) = lookup (map (lv_of V val) l) n.
Proof.
  induction l as [|x t IH]; simpl; [reflexivity|].
  destruct (lbl x =? n); [reflexivity | exact IH].
Qed.

Section OneRound.
  Context {P B P' B' : Type}.
  Variable V : Type.
  Variable leb nleb : V -> V -> bool.
  Hypothesis leb_total : forall x y, leb x y = true \/ leb y x = true.
  Hypothesis leb_trans : forall x y z, leb x y = true -> leb y z = true -> leb x z = true.
  Hypothesis leb_antisym : forall x y, leb x y = true -> leb y x = true -> x = y.
  Hypothesis nleb_total : forall x y, nleb x y = true \/ nleb y x = true.
  Hypothesis nleb_trans : forall x y z, nleb x y = true -> nleb y z = true -> nleb x z = true.
  Hypothesis nleb_antisym : forall x y, nleb x y = true -> nleb y x = true -> x = y.
  Variable m : mol P B.
  Variable m' : mol P' B'.
  Variable f : N -> N.
  Variable val : atom P -> V.
  Variable val' : atom P' -> V.
  Hypothesis Hwf : wfg m.
  Hypothesis Hwf' : wfg m'.
  Hypothesis Hinj : forall x y, In x (labels m) -> In y (labels m) -> f x = f y -> x = y.
  Hypothesis Hbonds : Permutation (map (fun b => norm_pair (fpair f (ends b))) (bonds m))
                                  (map (fun b => norm_pair (ends b)) (bonds m')).
  Definition flv (kv : N * V) : N * V := (f (fst kv), snd kv).
  Hypothesis Hatoms : Permutation (map flv (map (lv_of V val) (atoms m))) (map (lv_of V val') (atoms m')).

  Let lvs := map (lv_of V val) (atoms m).
  Let lvs' := map (lv_of V val') (atoms m').
  Lemma fst_lvs : map fst lvs = labels m.
  Proof. unfold lvs, labels. rewrite map_map. reflexivity. Qed.
  Lemma fst_lvs' : map fst lvs' = labels m'.
  Proof. unfold lvs', labels. rewrite map_map. reflexivity. Qed.

  Lemma lookup_rel n : In n (labels m) -> lookup lvs' (f n) = lookup lvs n.
  Proof.
    intros Hn. rewrite <- (lookup_perm V (map flv lvs) lvs' (f n)).
    - apply lookup_map_key; rewrite fst_lvs; assumption.
    - eapply Permutation_NoDup; [apply Permutation_sym, Permutation_map, Hatoms|].
      fold lvs'. rewrite fst_lvs'. apply Hwf'.
    - exact Hatoms.
  Qed.

  Definition optl (o : option V) : list V := match o with Some v => [v] | None => [] end.
  Lemma nbr_vals_lookup {Q C} (g : mol Q C) (vl : atom Q -> V) a :
    nbr_vals V vl g a = flat_map (fun n => optl (lookup (map (lv_of V vl) (atoms g)) n)) (nbrs g a).
  Proof.
    unfold nbr_vals. apply flat_map_ext. intros n. rewrite <- find_atom_lookup.
    destruct (find_atom (atoms g) n); reflexivity.
  Qed.

  Lemma nbrs_in_labels a n : In n (nbrs m a) -> In n (labels m).
  Proof.
    unfold nbrs. rewrite in_flat_map. intros (b & Hb & Hn). destruct Hwf as [_ Hw].
    destruct (Hw b Hb) as (_ & Hu & Hv). unfold nb1 in Hn.
    destruct (fst (ends b) =? a); [destruct Hn as [<-|[]]; exact Hv|].
    destruct (snd (ends b) =? a); [destruct Hn as [<-|[]]; exact Hu| destruct Hn].
  Qed.

  Lemma nbr_vals_rel a : In a (labels m) -> Permutation (nbr_vals V val' m' (f a)) (nbr_vals V val m a).
  Proof.
    intros Ha. rewrite !nbr_vals_lookup. fold lvs lvs'.
    rewrite (Permutation_flat_map _ (nbrs_relabel m m' f Hwf Hwf' Hinj Hbonds a Ha)).
    rewrite !flat_map_concat_map, map_map. apply Permutation_refl'. f_equal.
    apply map_ext_in. intros n Hn. rewrite lookup_rel; [reflexivity|]. eapply nbrs_in_labels, Hn.
  Qed.

  Lemma keyL_rel l v : In l (labels m) -> keyL V nleb val' m' (f l, v) = keyL V nleb val m (l, v).
  Proof.
    intros Hl. unfold keyL; simpl. f_equal.
    apply isort_perm_invariant; auto. apply nbr_vals_rel, Hl.
  Qed.

  Lemma keys_rel : Permutation (keys_of V nleb val' m') (keys_of V nleb val m).
  Proof.
    unfold keys_of.
    rewrite <- (map_map (lv_of V val') (keyL V nleb val' m')), <- (map_map (lv_of V val) (keyL V nleb val m)).
    rewrite <- (Permutation_map (keyL V nleb val' m') Hatoms).
    rewrite map_map. apply Permutation_refl'. apply map_ext_in.
    intros [l v] Hin. unfold flv; simpl. apply keyL_rel.
    rewrite <- fst_lvs. apply (in_map fst) in Hin. exact Hin.
  Qed.

  Theorem class_rel x x' : In x (atoms m) -> In x' (atoms m') -> lbl x' = f (lbl x) ->
    class_of V leb nleb val' m' x' = class_of V leb nleb val m x.
  Proof.
    intros Hx Hx' Hl. unfold class_of.
    rewrite (rank_perm V leb leb_total leb_trans leb_antisym _ _ _ keys_rel).
    f_equal.
    assert (Hv : val' x' = val x).
    { assert (H1 : lookup lvs' (lbl x') = Some (val' x')).
      { apply lookup_in; [rewrite fst_lvs'; apply Hwf'|]. unfold lvs'. apply (in_map (lv_of V val')) in Hx'. exact Hx'. }
      assert (H2 : lookup lvs (lbl x) = Some (val x)).
      { apply lookup_in; [rewrite fst_lvs; apply Hwf|]. unfold lvs. apply (in_map (lv_of V val)) in Hx. exact Hx. }
      rewrite Hl, lookup_rel in H1; [congruence|]. apply in_map, Hx. }
    unfold lv_of. rewrite Hl, Hv. apply keyL_rel. apply in_map, Hx.
  Qed.
End OneRound.
Check class_rel.
Print Assumptions class_rel.
