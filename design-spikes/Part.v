From Coq Require Import List NArith Bool Lia Permutation Sorting.Sorted.
Require Import Core.
Import ListNotations.
Open Scope N_scope.

Record atom (P : Type) := mkAtom { lbl : N; zn : N; mass : option N; rad : option N; part : N; pay : P }.
Arguments mkAtom {P}. Arguments lbl {P}. Arguments zn {P}. Arguments mass {P}. Arguments rad {P}. Arguments part {P}. Arguments pay {P}.
Record mol (P B : Type) := mkMol { atoms : list (atom P); bonds : list (N * N * B) }.
Arguments mkMol {P B}. Arguments atoms {P B}. Arguments bonds {P B}.

Definition labels {P B} (m : mol P B) := map lbl (atoms m).
Definition ends {B} (b : N * N * B) : N * N := (fst (fst b), snd (fst b)).
Definition norm_pair (e : N * N) : N * N := if fst e <=? snd e then e else (snd e, fst e).
Definition nb1 (a : N) (e : N * N) : list N :=
  if fst e =? a then [snd e] else if snd e =? a then [fst e] else [].
Definition nbrs {P B} (m : mol P B) (a : N) : list N := flat_map (fun b => nb1 a (ends b)) (bonds m).

Fixpoint find_atom {P} (l : list (atom P)) (a : N) : option (atom P) :=
  match l with [] => None | x :: t => if lbl x =? a then Some x else find_atom t a end.

Definition wfg {P B} (m : mol P B) : Prop :=
  NoDup (labels m) /\
  forall b, In b (bonds m) -> fst (ends b) <> snd (ends b) /\ In (fst (ends b)) (labels m) /\ In (snd (ends b)) (labels m).

(* ---------- lexicographic order on lists over an ordered V ---------- *)
Section Lex.
  Variable V : Type.
  Variable leb : V -> V -> bool.
  Fixpoint lex (k1 k2 : list V) : bool :=
    match k1, k2 with
    | [], _ => true
    | _ :: _, [] => false
    | x :: t1, y :: t2 => if leb x y then (if leb y x then lex t1 t2 else true) else false
    end.
  Hypothesis leb_total : forall x y, leb x y = true \/ leb y x = true.
  Hypothesis leb_trans : forall x y z, leb x y = true -> leb y z = true -> leb x z = true.
  Hypothesis leb_antisym : forall x y, leb x y = true -> leb y x = true -> x = y.
  Lemma lex_total k1 k2 : lex k1 k2 = true \/ lex k2 k1 = true.
  Proof.
    revert k2; induction k1 as [|x t1 IH]; intros [|y t2]; simpl; auto.
    destruct (leb x y) eqn:A, (leb y x) eqn:B; auto.
    destruct (leb_total x y); congruence.
  Qed.
  Lemma lex_antisym k1 k2 : lex k1 k2 = true -> lex k2 k1 = true -> k1 = k2.
  Proof.
    revert k2; induction k1 as [|x t1 IH]; intros [|y t2]; simpl; auto; try discriminate.
    destruct (leb x y) eqn:A, (leb y x) eqn:B; try discriminate.
    intros H1 H2. f_equal; [apply leb_antisym; assumption | apply IH; assumption].
  Qed.
  Lemma lex_trans k1 k2 k3 : lex k1 k2 = true -> lex k2 k3 = true -> lex k1 k3 = true.
  Proof.
    revert k2 k3; induction k1 as [|x t1 IH]; intros [|y t2] [|z t3]; simpl; auto; try discriminate.
    destruct (leb x y) eqn:A; try discriminate.
    destruct (leb y z) eqn:B; try discriminate.
    rewrite (leb_trans _ _ _ A B).
    destruct (leb y x) eqn:C; destruct (leb z y) eqn:D; destruct (leb z x) eqn:E; auto;
      intros H1 H2; try (eapply IH; eassumption); exfalso;
      repeat match goal with
             | Hab : leb ?a ?b = true, Hbc : leb ?b ?c = true, Hac : leb ?a ?c = false |- _ =>
               rewrite (leb_trans _ _ _ Hab Hbc) in Hac; discriminate
             end.
  Qed.
End Lex.

(* ---------- partition by a value ---------- *)
Section Part.
  Variable V : Type.
  Variable leb : V -> V -> bool.          (* order used both for neighbour sort (direction irrelevant here) and keys *)
  Variable nleb : V -> V -> bool.         (* neighbour sort order (e.g. descending) *)
  Hypothesis leb_total : forall x y, leb x y = true \/ leb y x = true.
  Hypothesis leb_trans : forall x y z, leb x y = true -> leb y z = true -> leb x z = true.
  Hypothesis leb_antisym : forall x y, leb x y = true -> leb y x = true -> x = y.
  Hypothesis nleb_total : forall x y, nleb x y = true \/ nleb y x = true.
  Hypothesis nleb_trans : forall x y z, nleb x y = true -> nleb y z = true -> nleb x z = true.
  Hypothesis nleb_antisym : forall x y, nleb x y = true -> nleb y x = true -> x = y.

  Definition key := list V.
  Definition kleb := lex V leb.

  Fixpoint dedup (l : list key) : list key :=
    match l with
    | [] => []
    | x :: t => match t with
                | [] => [x]
                | y :: _ => if (kleb x y && kleb y x)%bool then dedup t else x :: dedup t
                end
    end.
  Fixpoint index_of (k : key) (l : list key) : N :=
    match l with [] => 0 | x :: t => if (kleb x k && kleb k x)%bool then 0 else 1 + index_of k t end.
  Definition rank (keys : list key) (k : key) : N := index_of k (dedup (isort _ kleb keys)).

  Lemma rank_perm ks ks' k : Permutation ks ks' -> rank ks k = rank ks' k.
  Proof.
    intros HP. unfold rank.
    rewrite (isort_perm_invariant _ kleb (lex_total _ _ leb_total) (lex_trans _ _ leb_trans) (lex_antisym _ _ leb_antisym) ks ks' HP).
    reflexivity.
  Qed.

  Context {P B : Type}.
  Variable val : atom P -> V.
  Definition nbr_vals (m : mol P B) (a : N) : list V :=
    flat_map (fun n => match find_atom (atoms m) n with Some x => [val x] | None => [] end) (nbrs m a).
  Definition keyL (m : mol P B) (lv : N * V) : key := snd lv :: isort _ nleb (nbr_vals m (fst lv)).
  Definition lv_of (x : atom P) : N * V := (lbl x, val x).
  Definition keys_of (m : mol P B) : list key := map (fun x => keyL m (lv_of x)) (atoms m).
  Definition class_of (m : mol P B) (x : atom P) : N := rank (keys_of m) (keyL m (lv_of x)).
End Part.
