From Coq Require Import List NArith Bool Lia Permutation.
Require Import Core Part Part2 Part3.
Import ListNotations.
Open Scope N_scope.

(* The traversal is written against three views of the molecule, so that
   order-independence is a congruence lemma on the views. *)
Section Machine.
  Variable labels_sorted : list N.                 (* isort (labels m) *)
  Variable part_of : N -> option N.                (* class lookup *)
  Variable nbrs_sorted : N -> list N.              (* isort (nbrs m a) *)
  Variable prios : list (N -> N -> bool).          (* processing order: eq, gt, lt (reversed default tuple) *)

  Record st := mkSt { explored : list N; queue : list N; avail : list (N * list N); out : list (N * N) }.

  Fixpoint pop_class (p : N) (av : list (N * list N)) : option (N * list (N * list N)) :=
    match av with
    | [] => None
    | (q, ls) :: t =>
      if q =? p then match ls with [] => None | l :: ls' => Some (l, (q, ls') :: t) end
      else match pop_class p t with Some (l, t') => Some (l, (q, ls) :: t') | None => None end
    end.
  Definition memN (a : N) (l : list N) := existsb (N.eqb a) l.

  Definition order_of (a pa : N) : option (list N) :=
    let ns := nbrs_sorted a in
    fold_right (fun (pr : N -> N -> bool) (acc : option (list N)) =>
      match acc with None => None | Some rest =>
        let sel := flat_map (fun n => match part_of n with
                                      | Some pn => if pr pa pn then [n] else []
                                      | None => [] end) ns in
        Some (sel ++ rest) end) (Some []) prios.

  Inductive outcome := Done (s : st) | Step (s : st) | Fail.
  Definition explore (a : N) (q : list N) (s : st) : outcome :=
    match part_of a with
    | None => Fail
    | Some pa => match pop_class pa (avail s) with
                 | None => Fail
                 | Some (l, av') => match order_of a pa with
                                    | None => Fail
                                    | Some ord => Step (mkSt (a :: explored s) (q ++ ord) av' ((a, l) :: out s))
                                    end
                 end
    end.
  Definition step (s : st) : outcome :=
    match queue s with
    | [] => match filter (fun l => negb (memN l (explored s))) labels_sorted with
            | [] => Done s
            | u :: _ => explore u [] s
            end
    | a :: q => if memN a (explored s) then Step (mkSt (explored s) q (avail s) (out s)) else explore a q s
    end.
  Fixpoint run (fuel : nat) (s : st) : option (list (N * N)) :=
    match fuel with
    | O => None
    | S f => match step s with Done s' => Some (out s') | Step s' => run f s' | Fail => None end
    end.
End Machine.

(* instantiate on a molecule *)
Section OnMol.
  Context {P B : Type}.
  Definition nleb (x y : N) := x <=? y.
  Definition classes_of (m : mol P B) : list N := isort _ nleb (nodup N.eq_dec (map part (atoms m))).
  Definition init_avail (m : mol P B) : list (N * list N) :=
    map (fun p => (p, isort _ nleb (map lbl (filter (fun x => part x =? p) (atoms m))))) (classes_of m).
  Definition part_lookup (m : mol P B) (a : N) : option N := option_map part (find_atom (atoms m) a).
  Definition default_prios : list (N -> N -> bool) := [N.eqb; (fun x y => y <? x); N.ltb].
  Definition final_labels (m : mol P B) : option (list (N * N)) :=
    run (isort _ nleb (labels m)) (part_lookup m) (fun a => isort _ nleb (nbrs m a)) default_prios
        (S (2 * (length (atoms m) + 2 * length (bonds m))))
        (mkSt [] [] (init_avail m) []).
End OnMol.

(* ethanol with refined classes [0;0;0;1;1;2;3;4;5] *)
Definition eth : mol unit unit :=
  mkMol (map (fun '(l,z,p) => mkAtom l z None None p tt)
             [(0,1,0);(1,1,0);(2,1,0);(3,1,1);(4,1,1);(5,1,2);(6,6,3);(7,6,4);(8,8,5)])
        (map (fun '(u,v) => (u,v,tt)) [(0,6);(1,6);(2,6);(3,7);(4,7);(5,8);(6,7);(7,8)]).
Eval vm_compute in final_labels eth.
(* a graph where the traversal matters: classes all equal on a 6-ring, labels shuffled *)
Definition ring : mol unit unit :=
  mkMol (map (fun l => mkAtom l 6 None None 0 tt) [3;0;5;1;4;2])
        (map (fun '(u,v) => (u,v,tt)) [(3,0);(5,0);(5,1);(4,1);(2,4);(3,2)]).
Eval vm_compute in final_labels ring.
