import networkx as nx, random, copy
from tucan.io import graph_from_file
from tucan.graph_utils import permute_molecule
from pathlib import Path
bad=0;n=0
for f in sorted(Path("tests/molfiles").glob("*/*.mol"))[:80]:
    g=graph_from_file(str(f)); g0=copy.deepcopy(g)
    for s in (0.1,0.77):
        p=permute_molecule(g,s); p2=permute_molecule(g,s); n+=1
        ok = list(p.nodes)==sorted(g.nodes) and dict(p.nodes(data=True))==dict(p2.nodes(data=True)) and set(map(frozenset,p.edges))==set(map(frozenset,p2.edges))
        ok &= nx.is_isomorphic(g,p,node_match=lambda a,b:a==b, edge_match=lambda a,b:a==b)
        ok &= dict(g.nodes(data=True))==dict(g0.nodes(data=True)) and list(g.edges(data=True))==list(g0.edges(data=True))
        if g.number_of_edges()>1 and nx.density(g)!=1: ok &= (set(map(frozenset,p.edges))!=set(map(frozenset,g.edges)))
        if not ok: bad+=1; print("BAD",f.stem,s)
print(n,bad)
