From Coq Require Import List NArith Bool Lia Permutation.
Require Import Core Part.
Import ListNotations.
Open Scope N_scope.

Lemma nb1_flip a e : fst e <> snd e -> nb1 a (snd e, fst e) = nb1 a e.
Proof.
  destruct e as [u v]; unfold nb1; simpl; intros Hne.
  destruct (N.eqb_spec u a), (N.eqb_spec v a); subst; try reflexivity; try congruence.
Qed.
Lemma nb1_norm a e : fst e <> snd e -> nb1 a (norm_pair e) = nb1 a e.
Proof. intros H; unfold norm_pair; destruct (fst e <=? snd e); [reflexivity | apply nb1_flip, H]. Qed.

Lemma nb1_map (f : N -> N) (S : N -> Prop) a e :
  (forall x y, S x -> S y -> f x = f y -> x = y) -> S a -> S (fst e) -> S (snd e) ->
  nb1 (f a) (f (fst e), f (snd e)) = map f (nb1 a e).
Proof.
  intros Hinj Ha Hu Hv. destruct e as [u v]; unfold nb1; simpl in *.
  destruct (N.eqb_spec u a) as [->|Hua].
  - rewrite N.eqb_refl. reflexivity.
  - destruct (N.eqb_spec (f u) (f a)) as [E|_]; [apply Hinj in E; congruence|].
    destruct (N.eqb_spec v a) as [->|Hva].
    + rewrite N.eqb_refl. reflexivity.
    + destruct (N.eqb_spec (f v) (f a)) as [E|_]; [apply Hinj in E; congruence|]. reflexivity.
Qed.

Section TwoMols.
  Context {P B P' B' : Type}.
  Variable m : mol P B.
  Variable m' : mol P' B'.
  Variable f : N -> N.
  Hypothesis Hwf : wfg m.
  Hypothesis Hwf' : wfg m'.
  Hypothesis Hinj : forall x y, In x (labels m) -> In y (labels m) -> f x = f y -> x = y.
  Definition fpair (e : N * N) : N * N := (f (fst e), f (snd e)).
  Hypothesis Hbonds : Permutation (map (fun b => norm_pair (fpair (ends b))) (bonds m))
                                  (map (fun b => norm_pair (ends b)) (bonds m')).

  Lemma nbrs_as_norm {Q C} (g : mol Q C) a : wfg g ->
    nbrs g a = flat_map (nb1 a) (map (fun b => norm_pair (ends b)) (bonds g)).
  Proof.
    intros [_ Hb]. unfold nbrs. rewrite flat_map_concat_map, flat_map_concat_map, map_map.
    f_equal. apply map_ext_in. intros b Hin. symmetry. apply nb1_norm. apply Hb, Hin.
  Qed.

  Lemma nbrs_relabel a : In a (labels m) -> Permutation (nbrs m' (f a)) (map f (nbrs m a)).
  Proof.
    intros Ha. rewrite (nbrs_as_norm m' (f a) Hwf').
    rewrite <- (Permutation_flat_map (nb1 (f a)) Hbonds).
    unfold nbrs. rewrite !flat_map_concat_map, concat_map, !map_map.
    apply Permutation_refl'. f_equal. apply map_ext_in. intros b Hin.
    destruct Hwf as [_ Hb]. destruct (Hb b Hin) as (Hne & Hu & Hv).
    rewrite nb1_norm.
    - unfold fpair. apply (nb1_map f (fun x => In x (labels m))); auto.
    - unfold fpair; simpl. intros E. apply Hinj in E; auto.
  Qed.
End TwoMols.
