From Coq Require Import List NArith Bool Lia Permutation Sorting.Sorted.
Import ListNotations.
Open Scope N_scope.

(* generic total order as a boolean leb *)
Section Sort.
  Variable A : Type.
  Variable leb : A -> A -> bool.
  Fixpoint insert (x : A) (l : list A) : list A :=
    match l with
    | [] => [x]
    | y :: t => if leb x y then x :: l else y :: insert x t
    end.
  Fixpoint isort (l : list A) : list A :=
    match l with [] => [] | x :: t => insert x (isort t) end.

  Lemma insert_perm x l : Permutation (x :: l) (insert x l).
  Proof.
    induction l as [|y t IH]; simpl; [reflexivity|].
    destruct (leb x y); [reflexivity|].
    rewrite perm_swap. constructor. exact IH.
  Qed.
  Lemma isort_perm l : Permutation l (isort l).
  Proof.
    induction l as [|x t IH]; simpl; [constructor|].
    rewrite <- insert_perm. constructor. exact IH.
  Qed.

  Hypothesis leb_total : forall x y, leb x y = true \/ leb y x = true.
  Hypothesis leb_trans : forall x y z, leb x y = true -> leb y z = true -> leb x z = true.
  Hypothesis leb_antisym : forall x y, leb x y = true -> leb y x = true -> x = y.

  Definition sorted := Sorted (fun x y => leb x y = true).
  Lemma insert_sorted x l : sorted l -> sorted (insert x l).
  Proof.
    induction 1 as [|y t Hs IH Hhd]; simpl.
    - repeat constructor.
    - destruct (leb x y) eqn:E.
      + constructor; [constructor; assumption| constructor; exact E].
      + constructor; [exact IH|].
        destruct (leb_total x y) as [H|H]; [congruence|].
        destruct t as [|z t']; simpl; [constructor; exact H|].
        destruct (leb x z); constructor; [exact H|]. inversion Hhd; assumption.
  Qed.
  Lemma isort_sorted l : sorted (isort l).
  Proof. induction l; simpl; [constructor| apply insert_sorted; assumption]. Qed.

  Lemma sorted_perm_eq l l' : sorted l -> sorted l' -> Permutation l l' -> l = l'.
  Proof.
    intros Hl. revert l'. 
    induction Hl as [|x t Hs IH Hhd]; intros l' Hl' HP.
    - apply Permutation_nil in HP. subst; reflexivity.
    - destruct l' as [|y t']; [apply Permutation_sym, Permutation_nil in HP; discriminate|].
      assert (Hx : forall z, In z t -> leb x z = true).
      { assert (HS : sorted (x :: t)) by (constructor; assumption).
        apply Sorted_extends in HS; [|intros a b c; apply leb_trans].
        intros z Hz. rewrite Forall_forall in HS. apply HS, Hz. }
      assert (Hy : forall z, In z t' -> leb y z = true).
      { pose proof Hl' as HS. apply Sorted_extends in HS; [|intros a b c; apply leb_trans].
        intros z Hz. rewrite Forall_forall in HS. apply HS, Hz. }
      assert (x = y).
      { assert (In x (y :: t')) by (eapply Permutation_in; [exact HP| left; reflexivity]).
        assert (In y (x :: t)) by (eapply Permutation_in; [apply Permutation_sym; exact HP| left; reflexivity]).
        simpl in *. destruct H as [->|H]; [reflexivity|]. destruct H0 as [->|H0]; [reflexivity|].
        apply leb_antisym; [apply Hx, H0 | apply Hy, H]. }
      subst y. f_equal. apply IH.
      + inversion Hl'; assumption.
      + eapply Permutation_cons_inv; exact HP.
  Qed.

  Theorem isort_perm_invariant l l' : Permutation l l' -> isort l = isort l'.
  Proof.
    intros HP. apply sorted_perm_eq; try apply isort_sorted.
    rewrite <- isort_perm, <- isort_perm. exact HP.
  Qed.
End Sort.
