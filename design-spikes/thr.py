import sys, random
from concurrent.futures import ThreadPoolExecutor
from tucan.io import graph_from_tucan, TucanParserException, graph_from_file
from tucan.canonicalization import canonicalize_molecule
from tucan.serialization import serialize_molecule
from pathlib import Path
strs=[l.strip().strip("'") for l in open('/repo/tests/__snapshots__/test_serialization.ambr') if l.strip().startswith("'")]
strs=strs[:120]+["C2/(1-3)","CH/","X","C1/","C/(1-1)","HC/","C2H6O/(1-7)(2-7)(3-7)(4-8)(5-8)(6-9)(7-8)(8-9)"]
def work(s):
    try:
        g=graph_from_tucan(s)
        if g.number_of_nodes()==0: return "empty"
        return serialize_molecule(canonicalize_molecule(g))
    except TucanParserException as e: return "TPE"
    except Exception as e: return "OTHER:"+type(e).__name__+str(e)[:60]
r=random.Random(int(sys.argv[1])); order=list(strs)*3; r.shuffle(order)
with ThreadPoolExecutor(8) as ex: par=list(ex.map(work,order))   # cold cache, concurrent
seq=[work(s) for s in order]
bad=[(s,a,b) for s,a,b in zip(order,par,seq) if a!=b]
print(len(order),"mismatch",len(bad), bad[:3], sum(1 for x in seq if x.startswith("OTHER")))
