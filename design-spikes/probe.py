import itertools, random, sys, networkx as nx
from tucan.graph_utils import graph_from_molecule
from tucan.element_attributes import ELEMENT_ATTRS
from tucan.canonicalization import canonicalize_molecule
from tucan.serialization import serialize_molecule
from tucan.io import graph_from_tucan
import tucan; print(tucan.__file__)
SYM={v['atomic_number']:k for k,v in ELEMENT_ATTRS.items()}
def mk(zs,edges,mass={},rad={}):
    atoms={i:{'element_symbol':SYM[z],'atomic_number':z,'partition':0} for i,z in enumerate(zs)}
    for i,v in mass.items(): atoms[i]['mass']=v
    for i,v in rad.items(): atoms[i]['rad']=v
    return graph_from_molecule(atoms,{e:{} for e in edges})
def tucan_of(g): return serialize_molecule(canonicalize_molecule(g))
def relist(zs,edges,mass,rad,r):
    n=len(zs); p=list(range(n)); r.shuffle(p)   # old->new
    inv=[0]*n
    for o,nw in enumerate(p): inv[nw]=o
    zs2=[zs[inv[i]] for i in range(n)]
    e2=[(p[u],p[v]) if r.random()<.5 else (p[v],p[u]) for u,v in edges]; r.shuffle(e2)
    return zs2,e2,{p[i]:v for i,v in mass.items()},{p[i]:v for i,v in rad.items()}
nm=lambda a,b:(a['atomic_number'],a.get('mass',0),a.get('rad',0))==(b['atomic_number'],b.get('mass',0),b.get('rad',0))
r=random.Random(7)
# exhaustive small scope: n<=4, palette {C,N} + optional mass on one atom
bad=0;tot=0
for n in range(1,5):
    pairs=list(itertools.combinations(range(n),2))
    groups={}
    for zs in itertools.product([6,7],repeat=n):
        for k in range(2**len(pairs)):
            edges=[pairs[i] for i in range(len(pairs)) if k>>i&1]
            for mi in [None]+list(range(n)):
                mass={mi:13} if mi is not None else {}
                g=mk(zs,edges,mass); s=tucan_of(g); tot+=1
                groups.setdefault(s,[]).append(g)
                g2=graph_from_tucan(s)
                if not nx.is_isomorphic(g,g2,node_match=nm) or tucan_of(g2)!=s: bad+=1; print("C03",s)
    # C01/C02: each group one iso class, distinct groups non-iso
    reps=[]
    for s,gs in groups.items():
        for g in gs[1:]:
            if not nx.is_isomorphic(gs[0],g,node_match=nm): bad+=1; print("C02 collision",s)
        reps.append(gs[0])
    for a,b in itertools.combinations(reps,2):
        if nx.is_isomorphic(a,b,node_match=nm): bad+=1; print("C01 split", tucan_of(a), tucan_of(b))
print("exhaustive",tot,"bad",bad)
# symmetric skeletons with partial labels
skel={'ring6':(6,[(i,(i+1)%6) for i in range(6)]),'K4':(4,list(itertools.combinations(range(4),2))),
 'cube':(8,[(i,i^1) for i in range(8) if i<i^1]+[(i,i^2) for i in range(8) if i<i^2]+[(i,i^4) for i in range(8) if i<i^4]),
 'petersen':(10,list(nx.petersen_graph().edges)),'K33':(6,[(i,j) for i in range(3) for j in range(3,6)]),
 'two_rings':(8,[(i,(i+1)%4) for i in range(4)]+[(4+i,4+(i+1)%4) for i in range(4)]),'dodeca':(20,list(nx.dodecahedral_graph().edges)),
 'path9':(9,[(i,i+1) for i in range(8)])}
bad=0;cnt=0
for name,(n,edges) in skel.items():
    for trial in range(30):
        zs=[6]*n
        mass={i:r.choice([13,14]) for i in r.sample(range(n),r.randint(0,min(3,n)))}
        rad={i:2 for i in r.sample(range(n),r.randint(0,1))}
        s0=tucan_of(mk(zs,edges,mass,rad))
        for k in range(8):
            a=relist(zs,edges,mass,rad,r); cnt+=1
            g=mk(*a)
            c=canonicalize_molecule(g)
            if tucan_of(g)!=s0: bad+=1; print("C01",name,mass,rad)
            # C13 equitable
            P={x:d['partition'] for x,d in c.nodes(data=True)}
            sig={}
            for x in c:
                k_=(c.nodes[x]['invariant_code'],tuple(sorted(P[y] for y in c.neighbors(x))))
                if sig.setdefault(P[x],k_)!=k_: bad+=1; print("C13",name)
print("symmetric",cnt,"bad",bad)
