# Pure-list prototype of the planned Gallina model, compared with the implementation (semantics check for DESIGN).
import random, sys, networkx as nx
from tucan.graph_utils import graph_from_molecule
from tucan.element_attributes import ELEMENT_ATTRS
from tucan.canonicalization import canonicalize_molecule, partition_molecule_by_attribute, refine_partitions
from tucan.serialization import serialize_molecule
SYM={v['atomic_number']:k for k,v in ELEMENT_ATTRS.items()}
# mol = (atoms: list of dict(lbl,zn,mass,rad,part), bonds: list of (u,v))
def nbrs(m,a): return [v if u==a else u for (u,v) in m[1] if u==a or v==a]
def find(m,a): return next(x for x in m[0] if x['lbl']==a)
def key_of(val,m,x): return (val(x),)+tuple(sorted([val(find(m,n)) for n in nbrs(m,x['lbl'])],reverse=True))
def partition_by(val,m):
    keys=[key_of(val,m,x) for x in m[0]]
    uniq=sorted(set(keys))
    return ([dict(x,part=uniq.index(k)) for x,k in zip(m[0],keys)],m[1])
def nparts(m): return max(x['part'] for x in m[0])
def refine(m):
    fuel=len(m[0])+1
    while fuel:
        m2=partition_by(lambda x:x['part'],m)
        if nparts(m2)==nparts(m): return m2
        m=m2; fuel-=1
    raise Exception("fuel")
def inv(x): return (x['zn'],x['mass'] or 0,x['rad'] or 0)
def classes(m): return refine(partition_by(inv,m))
def relabel(f,m): return ([dict(x,lbl=f[x['lbl']]) for x in m[0]],[(f[u],f[v]) for u,v in m[1]])
def final_labels(m):
    part={x['lbl']:x['part'] for x in m[0]}
    avail={}
    for x in m[0]: avail.setdefault(x['part'],[]).append(x['lbl'])
    for p in avail: avail[p].sort()
    explored=[];queue=[];out={}
    fuel=2*(len(m[0])+2*len(m[1]))+1
    while True:
        assert fuel>0; fuel-=1
        if not queue:
            un=sorted(l for l in part if l not in explored)
            if not un: break
            queue=[un[0]]
        a=queue.pop(0)
        if a in explored: continue
        out[a]=avail[part[a]].pop(0)
        ns=nbrs(m,a)
        order=[]
        for pr in (lambda x,y:x==y, lambda x,y:x>y, lambda x,y:x<y):
            order+=sorted(n for n in ns if pr(part[a],part[n]))
        explored.append(a); queue+=order
    return out
def sort_by_Z(m):
    ks=sorted(( (x['zn'],)+tuple(sorted([find(m,n)['zn'] for n in nbrs(m,x['lbl'])],reverse=True)), x['lbl']) for x in m[0])
    return relabel({l:i for i,(_,l) in enumerate(ks)},m)
def serialize(m):
    m=sort_by_Z(relabel(final_labels(m),m))
    cnt={}
    for x in m[0]: cnt[SYM[x['zn']]]=cnt.get(SYM[x['zn']],0)+1
    s=''
    f=lambda k,v: k+(str(v) if v>1 else '')
    if 'C' in cnt:
        s+=f('C',cnt.pop('C'))
        if 'H' in cnt: s+=f('H',cnt.pop('H'))
    for k in sorted(cnt): s+=f(k,cnt[k])
    s+='/'+''.join(f"({a+1}-{b+1})" for a,b in sorted(tuple(sorted(e)) for e in m[1]))
    at=''
    for x in sorted(m[0],key=lambda x:x['lbl']):
        av=[f"{k}={x[k]}" for k in('mass','rad') if x[k] is not None]
        if av: at+=f"({x['lbl']+1}:{','.join(av)})"
    return s+('/'+at if at else '')
def to_model(g):
    return ([dict(lbl=a,zn=d['atomic_number'],mass=d.get('mass'),rad=d.get('rad'),part=d.get('partition',0)) for a,d in g.nodes(data=True)],[(u,v) for u,v in g.edges])
r=random.Random(int(sys.argv[1])); N=int(sys.argv[2]); bad=0
pal=[1,6,6,6,7,8,17,27,89,13]
for it in range(N):
    n=r.randint(1,14)
    atoms={};bonds={}
    for i in range(n):
        z=r.choice(pal); d={'element_symbol':SYM[z],'atomic_number':z,'partition':0}
        if r.random()<.15: d['mass']=r.choice([1,2,13])
        if r.random()<.1: d['rad']=r.choice([1,2])
        atoms[i]=d
    p=r.choice([.1,.25,.5,.9])
    for i in range(n):
        for j in range(i+1,n):
            if r.random()<p: bonds[(i,j) if r.random()<.5 else (j,i)]={}
    bl=list(bonds.items()); r.shuffle(bl); bonds=dict(bl)
    g=graph_from_molecule(atoms,bonds)
    nx.set_node_attributes(g,{a:a for a in g},'_orig')
    c=canonicalize_molecule(g)
    lam={d['_orig']:a for a,d in c.nodes(data=True)}
    m=to_model(g)
    cm=classes(m)
    if {x['lbl']:x['part'] for x in cm[0]}!={d['_orig']:d['partition'] for a,d in c.nodes(data=True)}: bad+=1;print("K4 diff");continue
    if sorted(lam.values())!=list(range(n)): bad+=1;print("H1");continue
    mc=relabel(lam,cm)
    s_model=serialize(mc); s_impl=serialize_molecule(c)
    s_model2=serialize(to_model(c))
    if not(s_model==s_impl==s_model2): bad+=1; print("K7 diff",s_model,s_impl)
print("cases",N,"bad",bad)
